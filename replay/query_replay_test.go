package query

import (
	"fmt"
	"testing"

	d "github.com/ostafen/clover/v2/document"
)

// A literal yields the same result whatever Go numeric type it was supplied as (C16), and Satisfy
// never panics on well-typed input (C20): Eq / In / Contains evaluated directly on a criteria object.
func TestVerifReplayLiteralKinds(t *testing.T) {
	doc := d.NewDocument()
	doc.Set("x", 5)
	doc.Set("arr", []interface{}{1, 5, 9})
	failed := 0
	try := func(what string, c Criteria, want bool) {
		defer func() {
			if e := recover(); e != nil {
				fmt.Printf("REPLAY FAIL scenario: %s panics: %v\n", what, e)
				failed++
			}
		}()
		got := c.Satisfy(doc)
		if got != want {
			fmt.Printf("REPLAY FAIL scenario: %s = %v, want %v\n", what, got, want)
			failed++
		} else {
			fmt.Printf("REPLAY PASS scenario: %s = %v\n", what, got)
		}
	}
	try(`Field("x").Eq(int 5) on x = int64(5)`, Field("x").Eq(5), true)
	try(`Field("x").Eq(uint8 5)`, Field("x").Eq(uint8(5)), true)
	try(`Field("x").Eq(float32 5)`, Field("x").Eq(float32(5)), true)
	try(`Field("x").In(int 4, int 5)`, Field("x").In(4, 5), true)
	try(`Field("arr").Contains(int 5, int16 9)`, Field("arr").Contains(5, int16(9)), true)
	try(`Field("x").Neq(int 5)`, Field("x").Neq(5), false)
	if failed > 0 {
		t.Fatal("literals of non-canonical Go numeric types are mishandled")
	}
}
