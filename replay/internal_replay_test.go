package internal

import (
	"encoding/json"
	"fmt"
	"os"
	"testing"
)

func TestVerifReplayCompare(t *testing.T) {
	var pairs [][2]rvVal
	if p := os.Getenv("VERIF_REPLAY_INPUT"); p != "" {
		data, err := os.ReadFile(p)
		if err == nil {
			json.Unmarshal(data, &pairs)
		}
	}
	failed := 0
	check := func(a, b interface{}, origin string) {
		want, ok := refCmp(a, b)
		if !ok {
			fmt.Printf("REPLAY SKIP %s: Compare(%#v, %#v) outside the replayable scalar domain\n", origin, a, b)
			return
		}
		got := func() (r int) {
			defer func() {
				if e := recover(); e != nil {
					fmt.Printf("REPLAY FAIL %s: Compare(%#v, %#v) panicked: %v\n", origin, a, b, e)
					failed++
					r = want
				}
			}()
			return sgn(Compare(a, b))
		}()
		if got != want {
			fmt.Printf("REPLAY FAIL %s: sign(Compare(%#v, %#v)) = %d, specification order says %d\n", origin, a, b, got, want)
			failed++
		} else {
			fmt.Printf("REPLAY PASS %s: sign(Compare(%#v, %#v)) = %d\n", origin, a, b, got)
		}
	}
	for _, p := range pairs {
		check(p[0].value(), p[1].value(), "model")
	}
	if failed > 0 {
		t.Fatalf("%d replayed inputs violate the specification order", failed)
	}
}
