package internal

import (
	"encoding/json"
	"fmt"
	"os"
	"testing"
	"time"
)

func TestVerifReplayCompare(t *testing.T) {
	var pairs [][2]rvVal
	if p := os.Getenv("VERIF_REPLAY_INPUT"); p != "" {
		data, err := os.ReadFile(p)
		if err == nil {
			json.Unmarshal(data, &pairs)
		}
	}
	failed := 0
	check := func(a, b interface{}, origin string) {
		want, ok := refCmp(a, b)
		if !ok {
			fmt.Printf("REPLAY SKIP %s: Compare(%#v, %#v) outside the replayable scalar domain\n", origin, a, b)
			return
		}
		got := func() (r int) {
			defer func() {
				if e := recover(); e != nil {
					fmt.Printf("REPLAY FAIL %s: Compare(%#v, %#v) panicked: %v\n", origin, a, b, e)
					failed++
					r = want
				}
			}()
			return sgn(Compare(a, b))
		}()
		if got != want {
			fmt.Printf("REPLAY FAIL %s: sign(Compare(%#v, %#v)) = %d, specification order says %d\n", origin, a, b, got, want)
			failed++
		} else {
			fmt.Printf("REPLAY PASS %s: sign(Compare(%#v, %#v)) = %d\n", origin, a, b, got)
		}
	}
	for _, p := range pairs {
		check(p[0].value(), p[1].value(), "model")
	}
	if failed > 0 {
		t.Fatalf("%d replayed inputs violate the specification order", failed)
	}
}

// Stored documents read back identical in type and value (C11): a time inside an array comes back as a
// time.Time, like a time at the top level or inside an object.
func TestVerifReplayTimeInArray(t *testing.T) {
	now := time.Date(2024, 5, 6, 7, 8, 9, 0, time.UTC)
	in := map[string]interface{}{
		"top":    now,
		"object": map[string]interface{}{"t": now},
		"array":  []interface{}{now, map[string]interface{}{"t": now}, []interface{}{now}},
	}
	data, err := Encode(in)
	if err != nil {
		t.Fatal(err)
	}
	var out map[string]interface{}
	if err := Decode(data, &out); err != nil {
		t.Fatal(err)
	}
	failed := 0
	check := func(where string, v interface{}) {
		if tm, ok := v.(time.Time); !ok || !tm.Equal(now) {
			fmt.Printf("REPLAY FAIL scenario: a time.Time stored %s is read back as %T (%v)\n", where, v, v)
			failed++
		} else {
			fmt.Printf("REPLAY PASS scenario: a time.Time stored %s is read back as time.Time\n", where)
		}
	}
	check("at the top level", out["top"])
	check("inside an object", out["object"].(map[string]interface{})["t"])
	arr := out["array"].([]interface{})
	check("inside an array", arr[0])
	check("inside an object inside an array", arr[1].(map[string]interface{})["t"])
	check("inside an array inside an array", arr[2].([]interface{})[0])
	if failed > 0 {
		t.Fatal("times inside arrays are not unwrapped on read")
	}
}
