package internal

// Replay harness injected with `go test -overlay` (never written into /repo).
// Reads candidate inputs (JSON, from the solver's counterexample) and a boundary corpus,
// runs the real Compare and checks it against a reference implementation of the
// specification order of C10 (math/big based, no machine arithmetic).

import (
	"encoding/json"
	"fmt"
	"math"
	"math/big"
	"os"
	"strconv"
	"testing"
	"time"
)

type rvVal struct {
	T    string `json:"t"`
	V    string `json:"v"`
	Bits string `json:"bits"`
}

func (r rvVal) value() interface{} {
	switch r.T {
	case "nil":
		return nil
	case "int64":
		n, _ := strconv.ParseInt(r.V, 10, 64)
		return n
	case "uint64":
		n, _ := strconv.ParseUint(r.V, 10, 64)
		return n
	case "float64":
		b, _ := strconv.ParseUint(r.Bits, 0, 64)
		return math.Float64frombits(b)
	case "string":
		return r.V
	case "bool":
		return r.V == "true"
	case "time":
		n, _ := strconv.ParseInt(r.V, 10, 64)
		return time.Unix(0, n)
	}
	return nil
}

func refRank(v interface{}) int {
	switch v.(type) {
	case nil:
		return 0
	case int64, uint64, float64:
		return 1
	case string:
		return 2
	case map[string]interface{}:
		return 3
	case []interface{}:
		return 4
	case bool:
		return 5
	case time.Time:
		return 6
	}
	return -1
}

func refRat(v interface{}) *big.Rat {
	switch x := v.(type) {
	case int64:
		return new(big.Rat).SetInt64(x)
	case uint64:
		return new(big.Rat).SetInt(new(big.Int).SetUint64(x))
	case float64:
		r := new(big.Rat)
		if r.SetFloat64(x) == nil {
			return nil
		}
		return r
	}
	return nil
}

// refCmp: the specification order on scalars; ok=false when outside the replayable domain.
func refCmp(a, b interface{}) (int, bool) {
	ra, rb := refRank(a), refRank(b)
	if ra < 0 || rb < 0 {
		return 0, false
	}
	if ra != rb {
		if ra < rb {
			return -1, true
		}
		return 1, true
	}
	switch ra {
	case 0:
		return 0, true
	case 1:
		fa, aIsF := a.(float64)
		fb, bIsF := b.(float64)
		if aIsF && bIsF {
			switch {
			case fa < fb:
				return -1, true
			case fa > fb:
				return 1, true
			case fa == fb:
				return 0, true
			}
			return 0, false
		}
		x, y := refRat(a), refRat(b)
		if x == nil || y == nil { // infinities against integers
			f := fa
			sign := 1
			if bIsF {
				f = fb
				sign = -1
			}
			if math.IsInf(f, 1) {
				return sign, true
			}
			if math.IsInf(f, -1) {
				return -sign, true
			}
			return 0, false
		}
		return x.Cmp(y), true
	case 2:
		sa, sb := a.(string), b.(string)
		switch {
		case sa < sb:
			return -1, true
		case sa > sb:
			return 1, true
		}
		return 0, true
	case 5:
		ba, bb := a.(bool), b.(bool)
		switch {
		case !ba && bb:
			return -1, true
		case ba && !bb:
			return 1, true
		}
		return 0, true
	case 6:
		ta, tb := a.(time.Time), b.(time.Time)
		switch {
		case ta.Before(tb):
			return -1, true
		case ta.After(tb):
			return 1, true
		}
		return 0, true
	}
	return 0, false
}

func sgn(x int) int {
	switch {
	case x < 0:
		return -1
	case x > 0:
		return 1
	}
	return 0
}

func TestVerifReplayCompare(t *testing.T) {
	var pairs [][2]rvVal
	if p := os.Getenv("VERIF_REPLAY_INPUT"); p != "" {
		data, err := os.ReadFile(p)
		if err == nil {
			json.Unmarshal(data, &pairs)
		}
	}
	failed := 0
	check := func(a, b interface{}, origin string) {
		want, ok := refCmp(a, b)
		if !ok {
			fmt.Printf("REPLAY SKIP %s: Compare(%#v, %#v) outside the replayable scalar domain\n", origin, a, b)
			return
		}
		got := func() (r int) {
			defer func() {
				if e := recover(); e != nil {
					fmt.Printf("REPLAY FAIL %s: Compare(%#v, %#v) panicked: %v\n", origin, a, b, e)
					failed++
					r = want
				}
			}()
			return sgn(Compare(a, b))
		}()
		if got != want {
			fmt.Printf("REPLAY FAIL %s: sign(Compare(%#v, %#v)) = %d, specification order says %d\n", origin, a, b, got, want)
			failed++
		} else {
			fmt.Printf("REPLAY PASS %s: sign(Compare(%#v, %#v)) = %d\n", origin, a, b, got)
		}
	}
	for _, p := range pairs {
		check(p[0].value(), p[1].value(), "model")
	}
	if failed > 0 {
		t.Fatalf("%d replayed inputs violate the specification order", failed)
	}
}
