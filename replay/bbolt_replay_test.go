package bbolt

import (
	"fmt"
	"testing"
)

// Cursor semantics of the bbolt adapter (C15): a forward seek lands on the first key at or after the target,
// a reverse seek on the last key at or before it, keys with empty values are visible, and a seek that finds
// nothing leaves the cursor invalid.
func TestVerifReplayBoltCursor(t *testing.T) {
	st, err := Open(t.TempDir())
	if err != nil {
		t.Fatal(err)
	}
	defer st.Close()
	tx, _ := st.Begin(true)
	for _, k := range []string{"a", "c", "e"} {
		tx.Set([]byte(k), []byte("v"+k))
	}
	tx.Commit()
	failed := 0
	check := func(what string, got string, want string) {
		if got != want {
			fmt.Printf("REPLAY FAIL scenario: keys {a c e}: %s: %s (expected %s)\n", what, got, want)
			failed++
		} else {
			fmt.Printf("REPLAY PASS scenario: keys {a c e}: %s: %s\n", what, got)
		}
	}
	where := func(forward bool, seeks ...string) string {
		tx, _ := st.Begin(false)
		defer tx.Rollback()
		cur, _ := tx.Cursor(forward)
		defer cur.Close()
		for _, s := range seeks {
			cur.Seek([]byte(s))
		}
		if !cur.Valid() {
			return "invalid"
		}
		it, _ := cur.Item()
		return "on " + string(it.Key)
	}
	check("forward seek b", where(true, "b"), "on c")
	check("forward seek c", where(true, "c"), "on c")
	check("forward seek z", where(true, "z"), "invalid")
	check("reverse seek d", where(false, "d"), "on c")
	check("reverse seek c", where(false, "c"), "on c")
	check("reverse seek 0 (before the first key)", where(false, "0"), "invalid")
	check("reverse seek z (after the last key)", where(false, "z"), "on e")
	check("forward seek c, then forward seek z on the same cursor", where(true, "c", "z"), "invalid")
	// an absent target that is a prefix of the next key
	tx, _ = st.Begin(true)
	tx.Set([]byte("cx"), []byte("v"))
	tx.Commit()
	check("with cx added: reverse seek c0 (absent, between c and cx)", where(false, "c0"), "on c")
	check("with cx added: reverse seek cw (absent, shares a prefix with cx)", where(false, "cw"), "on c")
	tx, _ = st.Begin(true)
	tx.Delete([]byte("c"))
	tx.Commit()
	check("with c deleted: reverse seek c (absent, a prefix of cx)", where(false, "c"), "on a")
	// keys with empty values written in the same transaction are visible to a scan
	tx, _ = st.Begin(true)
	tx.Set([]byte("b"), nil)
	tx.Set([]byte("d"), []byte{})
	cur, _ := tx.Cursor(true)
	seen := ""
	for cur.Seek([]byte("a")); cur.Valid(); cur.Next() {
		it, _ := cur.Item()
		seen += string(it.Key)
	}
	cur.Close()
	tx.Rollback()
	check("forward scan after Set(b, nil) and Set(d, empty) in the same transaction", "sees "+seen, "sees abcde")
	if failed > 0 {
		t.Fatal("bbolt cursor adapter")
	}
}
