package index

import (
	"encoding/json"
	"fmt"
	"os"
	"testing"
)

type rvRange struct {
	Start, End rvVal
	SI, EI     bool
}

func (r rvRange) value() *Range {
	return &Range{Start: r.Start.value(), End: r.End.value(), StartIncluded: r.SI, EndIncluded: r.EI}
}

// refInRange: membership per C17 (nil bound = open end; (nil,nil,incl,incl) = nil-only range).
func refInRange(r *Range, v interface{}) (bool, bool) {
	if r.Start == nil && r.End == nil && r.StartIncluded && r.EndIncluded {
		return v == nil, true
	}
	lower := r.Start == nil
	if !lower {
		c, ok := refCmp(v, r.Start)
		if !ok {
			return false, false
		}
		lower = c > 0 || (r.StartIncluded && c == 0)
	}
	var upper bool
	if r.End == nil {
		upper = !r.EndIncluded || v == nil
	} else {
		c, ok := refCmp(v, r.End)
		if !ok {
			return false, false
		}
		upper = c < 0 || (r.EndIncluded && c == 0)
	}
	return lower && upper, true
}

type rvRangeCase struct {
	Op string // isempty | intersect
	R  rvRange
	R2 rvRange
	V  rvVal
}

func TestVerifReplayRange(t *testing.T) {
	var cases []rvRangeCase
	if p := os.Getenv("VERIF_REPLAY_INPUT"); p != "" {
		if data, err := os.ReadFile(p); err == nil {
			json.Unmarshal(data, &cases)
		}
	}
	failed := 0
	for _, c := range cases {
		r, v := c.R.value(), c.V.value()
		in, ok := refInRange(r, v)
		if !ok {
			fmt.Printf("REPLAY SKIP model: %+v outside the replayable scalar domain\n", c)
			continue
		}
		switch c.Op {
		case "isempty":
			if r.IsEmpty() && in {
				fmt.Printf("REPLAY FAIL model: Range%+v.IsEmpty() = true but the value %#v lies in the range\n", *r, v)
				failed++
			} else {
				fmt.Printf("REPLAY PASS model: Range%+v.IsEmpty() = %v, value %#v in range: %v\n", *r, r.IsEmpty(), v, in)
			}
		case "intersect":
			r2 := c.R2.value()
			in2, ok2 := refInRange(r2, v)
			res := r.Intersect(r2)
			in3, ok3 := refInRange(res, v)
			if !ok2 || !ok3 {
				fmt.Printf("REPLAY SKIP model: outside the replayable domain\n")
				continue
			}
			if in && in2 && !in3 {
				fmt.Printf("REPLAY FAIL model: %#v lies in %+v and %+v but not in their intersection %+v\n", v, *r, *r2, *res)
				failed++
			} else {
				fmt.Printf("REPLAY PASS model: intersect %+v %+v = %+v; value %#v: %v %v %v\n", *r, *r2, *res, v, in, in2, in3)
			}
		}
	}
	if failed > 0 {
		t.Fatalf("%d replayed inputs violate the range specification", failed)
	}
}
