package clover

import (
	"errors"
	"fmt"
	"testing"

	d "github.com/ostafen/clover/v2/document"
	"github.com/ostafen/clover/v2/internal"
)

// sortNode.Finish must stop at, and return, the first non-nil result of the next node
// (a stop request becomes nil): C04 (a store failure inside a sorted bulk write is reported),
// C09 (ForEach stops after the consumer returns false).
func TestVerifReplaySortFinish(t *testing.T) {
	failed := 0
	boom := errors.New("store failure")
	for _, ret := range []error{boom, internal.ErrStopIteration} {
		calls := 0
		nd := &sortNode{}
		nd.SetNext(&consumerNode{consumer: func(doc *d.Document) error { calls++; return ret }})
		for i := 0; i < 3; i++ {
			doc := d.NewDocument()
			doc.Set("x", i)
			nd.Callback(doc)
		}
		err := nd.Finish()
		want := ret
		if ret == internal.ErrStopIteration {
			want = nil
		}
		if calls != 1 || err != want {
			fmt.Printf("REPLAY FAIL scenario: next node returns %q on the first of 3 sorted documents: Finish invoked it %d times and returned %v (expected 1 invocation, result %v)\n", ret, calls, err, want)
			failed++
		} else {
			fmt.Printf("REPLAY PASS scenario: next node returns %q: 1 invocation, Finish returned %v\n", ret, err)
		}
	}
	if failed > 0 {
		t.Fatal("sortNode.Finish ignores the result of the next node")
	}
}
