package clover

import (
	"errors"
	"fmt"
	"os"
	"path/filepath"
	"testing"

	d "github.com/ostafen/clover/v2/document"
	"github.com/ostafen/clover/v2/internal"
	"github.com/ostafen/clover/v2/query"
)

// sortNode.Finish must stop at, and return, the first non-nil result of the next node
// (a stop request becomes nil): C04 (a store failure inside a sorted bulk write is reported),
// C09 (ForEach stops after the consumer returns false).
func TestVerifReplaySortFinish(t *testing.T) {
	failed := 0
	boom := errors.New("store failure")
	for _, ret := range []error{boom, internal.ErrStopIteration} {
		calls := 0
		nd := &sortNode{}
		nd.SetNext(&consumerNode{consumer: func(doc *d.Document) error { calls++; return ret }})
		for i := 0; i < 3; i++ {
			doc := d.NewDocument()
			doc.Set("x", i)
			nd.Callback(doc)
		}
		err := nd.Finish()
		want := ret
		if ret == internal.ErrStopIteration {
			want = nil
		}
		if calls != 1 || err != want {
			fmt.Printf("REPLAY FAIL scenario: next node returns %q on the first of 3 sorted documents: Finish invoked it %d times and returned %v (expected 1 invocation, result %v)\n", ret, calls, err, want)
			failed++
		} else {
			fmt.Printf("REPLAY PASS scenario: next node returns %q: 1 invocation, Finish returned %v\n", ret, err)
		}
	}
	if failed > 0 {
		t.Fatal("sortNode.Finish ignores the result of the next node")
	}
}

// Bulk writes must not depend on how a store cursor behaves while the transaction is being written
// (C03, C06, C15): every matched document is updated exactly once; DropCollection removes everything.
func TestVerifReplayBulkUnderCursor(t *testing.T) {
	failed := 0
	for _, n := range []int{50, 200, 1000} {
		dir := t.TempDir()
		db, err := Open(dir)
		if err != nil {
			t.Fatal(err)
		}
		db.CreateCollection("c")
		docs := make([]*d.Document, 0, n)
		for i := 0; i < n; i++ {
			doc := d.NewDocument()
			doc.Set("x", i)
			doc.Set("y", i%7)
			docs = append(docs, doc)
		}
		db.Insert("c", docs...)
		db.CreateIndex("c", "x")
		db.CreateIndex("c", "y")
		calls := 0
		err = db.UpdateFunc(query.NewQuery("c").Where(query.Field("x").GtEq(0)), func(doc *d.Document) *d.Document {
			calls++
			nd := doc.Copy()
			nd.Set("x", doc.Get("x").(int64)+100000)
			return nd
		})
		updated, _ := db.Count(query.NewQuery("c").Where(query.Field("x").GtEq(100000)))
		if err != nil || calls != n || updated != n {
			fmt.Printf("REPLAY FAIL scenario: UpdateFunc over %d documents selected through an index on the rewritten field: updater ran %d times, %d documents updated, err=%v\n", n, calls, updated, err)
			failed++
		} else {
			fmt.Printf("REPLAY PASS scenario: UpdateFunc over %d documents: updater ran %d times\n", n, calls)
		}
		db.DropCollection("c")
		db.CreateCollection("c")
		left, _ := db.FindAll(query.NewQuery("c"))
		viaIdx := 0
		if has, _ := db.HasIndex("c", "x"); !has {
			db.CreateIndex("c", "x")
			r, _ := db.FindAll(query.NewQuery("c").Sort(query.SortOption{Field: "x"}))
			viaIdx = len(r)
		}
		if len(left) != 0 || viaIdx != 0 {
			fmt.Printf("REPLAY FAIL scenario: DropCollection of %d documents with 2 indexes left %d documents and %d index entries behind\n", n, len(left), viaIdx)
			failed++
		} else {
			fmt.Printf("REPLAY PASS scenario: DropCollection of %d documents left nothing behind\n", n)
		}
		db.Close()
	}
	if failed > 0 {
		t.Fatal("bulk writes under an open cursor lose documents")
	}
}

// ImportCollection / CreateCollectionByQuery: a failing call must leave the database as it was (C04)
// and must not panic on an ill-formed file (C20, C19).
func TestVerifReplayImport(t *testing.T) {
	failed := 0
	dir := t.TempDir()
	db, err := Open(dir)
	if err != nil {
		t.Fatal(err)
	}
	defer db.Close()
	write := func(name, content string) string {
		p := filepath.Join(dir, name)
		os.WriteFile(p, []byte(content), 0o644)
		return p
	}
	try := func(what string, f func() error) {
		var err error
		panicked := false
		func() {
			defer func() {
				if e := recover(); e != nil {
					panicked = true
					fmt.Printf("REPLAY FAIL scenario: %s panics: %v\n", what, e)
					failed++
				}
			}()
			err = f()
		}()
		if panicked {
			return
		}
		has, _ := db.HasCollection("target")
		if err != nil && has {
			fmt.Printf("REPLAY FAIL scenario: %s returned error %q but left collection \"target\" behind\n", what, err)
			failed++
			db.DropCollection("target")
		} else {
			fmt.Printf("REPLAY PASS scenario: %s: err=%v, collection created=%v\n", what, err, has)
			if has {
				db.DropCollection("target")
			}
		}
	}
	try("ImportCollection of a file that is not JSON", func() error { return db.ImportCollection("target", write("bad.json", "{not json")) })
	try("ImportCollection of a JSON array containing null", func() error { return db.ImportCollection("target", write("null.json", `[{"a":1}, null]`)) })
	try("ImportCollection of two documents with the same _id", func() error {
		return db.ImportCollection("target", write("dup.json", `[{"_id":"0d8b1f0c-5b0e-4b57-9d3e-2f6f3f1d7a11","a":1},{"_id":"0d8b1f0c-5b0e-4b57-9d3e-2f6f3f1d7a11","a":2}]`))
	})
	try("CreateCollectionByQuery from a missing source collection", func() error { return db.CreateCollectionByQuery("target", query.NewQuery("nosuch")) })
	if failed > 0 {
		t.Fatal("a failed composite operation panicked or left a trace")
	}
}

// Index catalog operations on a missing collection return ErrCollectionNotExist; they do not panic (C14, C20).
func TestVerifReplayListIndexesMissing(t *testing.T) {
	db, err := Open(t.TempDir())
	if err != nil {
		t.Fatal(err)
	}
	defer db.Close()
	failed := false
	func() {
		defer func() {
			if e := recover(); e != nil {
				fmt.Printf("REPLAY FAIL scenario: ListIndexes on a missing collection panics: %v\n", e)
				failed = true
			}
		}()
		_, err := db.ListIndexes("nosuch")
		if !errors.Is(err, ErrCollectionNotExist) {
			fmt.Printf("REPLAY FAIL scenario: ListIndexes on a missing collection returned %v\n", err)
			failed = true
		} else {
			fmt.Printf("REPLAY PASS scenario: ListIndexes on a missing collection returned %v\n", err)
		}
	}()
	if failed {
		t.Fatal("ListIndexes on a missing collection")
	}
}

// The stored counter behind a criteria-less Count follows the document keys (C06, C09): deleting an id
// that is not there leaves it alone.
func TestVerifReplayDeleteAbsent(t *testing.T) {
	db, err := Open(t.TempDir())
	if err != nil {
		t.Fatal(err)
	}
	defer db.Close()
	db.CreateCollection("c")
	for i := 0; i < 3; i++ {
		doc := d.NewDocument()
		doc.Set("x", i)
		if _, err := db.InsertOne("c", doc); err != nil {
			t.Fatal(err)
		}
	}
	err = db.DeleteById("c", "0d8b1f0c-5b0e-4b57-9d3e-2f6f3f1d7a11")
	n, _ := db.Count(query.NewQuery("c"))
	all, _ := db.FindAll(query.NewQuery("c"))
	if n != len(all) {
		fmt.Printf("REPLAY FAIL scenario: 3 documents, DeleteById of an absent id (result %v): Count = %d, FindAll returns %d documents\n", err, n, len(all))
		t.Fatal("DeleteById of an absent id changes the stored size")
	}
	fmt.Printf("REPLAY PASS scenario: 3 documents, DeleteById of an absent id (result %v): Count = %d = len(FindAll)\n", err, n)
}

// FindById(c, id) only ever returns a document whose _id is id (C12): an update that rewrites _id must not
// leave the document stored under the key of its former id.
func TestVerifReplayUpdateRewritesId(t *testing.T) {
	db, err := Open(t.TempDir())
	if err != nil {
		t.Fatal(err)
	}
	defer db.Close()
	const other = "0d8b1f0c-5b0e-4b57-9d3e-2f6f3f1d7a11"
	failed := 0
	check := func(what string, id string, opErr error) {
		doc, _ := db.FindById("c", id)
		if doc != nil && doc.ObjectId() != id {
			fmt.Printf("REPLAY FAIL scenario: %s (result %v): FindById(%q) returns a document whose _id is %q\n", what, opErr, id, doc.ObjectId())
			failed++
		} else {
			fmt.Printf("REPLAY PASS scenario: %s (result %v): the document under %q still carries that _id\n", what, opErr, id)
		}
	}
	db.CreateCollection("c")
	mk := func() string {
		doc := d.NewDocument()
		doc.Set("x", 1)
		id, err := db.InsertOne("c", doc)
		if err != nil {
			t.Fatal(err)
		}
		return id
	}
	id1 := mk()
	err = db.UpdateById("c", id1, func(doc *d.Document) *d.Document {
		n := doc.Copy()
		n.Set(d.ObjectIdField, other)
		return n
	})
	check("UpdateById with an updater that sets _id to another valid id", id1, err)
	id2 := mk()
	err = db.Update(query.NewQuery("c").Where(query.Field(d.ObjectIdField).Eq(id2)), map[string]interface{}{d.ObjectIdField: other})
	check("Update with an update map that sets _id to another valid id", id2, err)
	id3 := mk()
	err = db.UpdateFunc(query.NewQuery("c").Where(query.Field(d.ObjectIdField).Eq(id3)), func(doc *d.Document) *d.Document {
		doc.Set(d.ObjectIdField, other)
		return doc
	})
	check("UpdateFunc whose updater rewrites _id in place and returns its argument", id3, err)
	if failed > 0 {
		t.Fatal("an update stored a document under a key different from its _id")
	}
}

// Index transparency scenarios (C02, C20): the same criteria over the same documents select the same
// documents with and without an index on the filtered field, and never panic.
func verifReplayPlanner(t *testing.T, what string, mk func(coll string) *query.Query, indexed ...string) bool {
	db, err := Open(t.TempDir())
	if err != nil {
		t.Fatal(err)
	}
	defer db.Close()
	for _, coll := range []string{"plain", "indexed"} {
		db.CreateCollection(coll)
		for i := 0; i < 10; i++ {
			doc := d.NewDocument()
			doc.Set("n", i)
			if i%4 != 3 {
				doc.Set("x", i)
			}
			doc.Set("y", 9-i)
			if _, err := db.InsertOne(coll, doc); err != nil {
				t.Fatal(err)
			}
		}
	}
	for _, f := range indexed {
		if err := db.CreateIndex("indexed", f); err != nil {
			t.Fatal(err)
		}
	}
	run := func(coll string) (res string, failed bool) {
		defer func() {
			if e := recover(); e != nil {
				res, failed = fmt.Sprintf("panic: %v", e), true
			}
		}()
		docs, err := db.FindAll(mk(coll).Sort(query.SortOption{Field: "n"}))
		if err != nil {
			return "error: " + err.Error(), false
		}
		s := ""
		for _, doc := range docs {
			s += fmt.Sprintf("%v ", doc.Get("n"))
		}
		return "n = " + s, false
	}
	plain, _ := run("plain")
	idx, panicked := run("indexed")
	if panicked || plain != idx {
		fmt.Printf("REPLAY FAIL scenario: %s: without an index %s; with an index on %v %s\n", what, plain, indexed, idx)
		return false
	}
	fmt.Printf("REPLAY PASS scenario: %s: %s with and without an index on %v\n", what, plain, indexed)
	return true
}

func TestVerifReplayPlannerNot(t *testing.T) {
	ok := verifReplayPlanner(t, "NotExists(x)", func(c string) *query.Query { return query.NewQuery(c).Where(query.Field("x").NotExists()) }, "x")
	ok = verifReplayPlanner(t, "Not(x In [1 2]) And n >= 0", func(c string) *query.Query {
		return query.NewQuery(c).Where(query.Field("x").In(1, 2).Not().And(query.Field("n").GtEq(0)))
	}, "x") && ok
	if !ok {
		t.Fatal("a negated criteria is mishandled by the index planner")
	}
}

func TestVerifReplayPlannerOr(t *testing.T) {
	ok := verifReplayPlanner(t, "x < 3 Or x > 6", func(c string) *query.Query { return query.NewQuery(c).Where(query.Field("x").Lt(3).Or(query.Field("x").Gt(6))) }, "x")
	ok = verifReplayPlanner(t, "x < 3 Or y < 3", func(c string) *query.Query { return query.NewQuery(c).Where(query.Field("x").Lt(3).Or(query.Field("y").Lt(3))) }, "x", "y") && ok
	ok = verifReplayPlanner(t, "x != 4", func(c string) *query.Query { return query.NewQuery(c).Where(query.Field("x").Neq(4)) }, "x") && ok
	if !ok {
		t.Fatal("a disjunction is planned as if it were a conjunction")
	}
}

func TestVerifReplayPlannerDoubleNot(t *testing.T) {
	ok := verifReplayPlanner(t, "Not(Not(Not(x = 5))) And x > 1", func(c string) *query.Query {
		return query.NewQuery(c).Where(query.Field("x").Eq(5).Not().Not().Not().And(query.Field("x").Gt(1)))
	}, "x")
	ok = verifReplayPlanner(t, "Not(Not(Not(x < 5)))", func(c string) *query.Query {
		return query.NewQuery(c).Where(query.Field("x").Lt(5).Not().Not().Not())
	}, "x") && ok
	if !ok {
		t.Fatal("a negation that survives flattening is planned with the range of the negated criteria")
	}
}

func TestVerifReplayPlannerFieldOperand(t *testing.T) {
	ok := verifReplayPlanner(t, "x > Field(y)", func(c string) *query.Query { return query.NewQuery(c).Where(query.Field("x").Gt(query.Field("y"))) }, "x")
	ok = verifReplayPlanner(t, "x = $y", func(c string) *query.Query { return query.NewQuery(c).Where(query.Field("x").Eq("$n")) }, "x") && ok
	if !ok {
		t.Fatal("a field operand is used as a literal range bound")
	}
}

// IterateDocs is exported: criteria built with plain Go values (not yet normalised) must work there as they
// do through FindAll (C20, C02).
func TestVerifReplayIterateDocsRaw(t *testing.T) {
	db, err := Open(t.TempDir())
	if err != nil {
		t.Fatal(err)
	}
	defer db.Close()
	db.CreateCollection("c")
	for i := 0; i < 10; i++ {
		doc := d.NewDocument()
		doc.Set("x", i)
		db.InsertOne("c", doc)
	}
	db.CreateIndex("c", "x")
	q := query.NewQuery("c").Where(query.Field("x").Gt(5))
	all, _ := db.FindAll(q)
	n := 0
	res := ""
	func() {
		defer func() {
			if e := recover(); e != nil {
				res = fmt.Sprintf("panics: %v", e)
			}
		}()
		err := db.IterateDocs(q, func(doc *d.Document) error { n++; return nil })
		res = fmt.Sprintf("visits %d documents (result %v)", n, err)
	}()
	if n != len(all) {
		fmt.Printf("REPLAY FAIL scenario: x > 5 (Go int literal) with an index on x: FindAll returns %d documents, IterateDocs %s\n", len(all), res)
		t.Fatal("IterateDocs with criteria that were not normalised")
	}
	fmt.Printf("REPLAY PASS scenario: x > 5 (Go int literal) with an index on x: FindAll returns %d documents, IterateDocs %s\n", len(all), res)
}

// Indexes are independent (C14): dropping the index on "x" leaves the index on "xy" exact.
func TestVerifReplayIndexPrefix(t *testing.T) {
	db, err := Open(t.TempDir())
	if err != nil {
		t.Fatal(err)
	}
	defer db.Close()
	db.CreateCollection("c")
	for i := 0; i < 10; i++ {
		doc := d.NewDocument()
		doc.Set("x", i)
		doc.Set("xy", i)
		db.InsertOne("c", doc)
	}
	db.CreateIndex("c", "x")
	db.CreateIndex("c", "xy")
	q := query.NewQuery("c").Where(query.Field("xy").GtEq(0))
	before, _ := db.FindAll(q)
	err = db.DropIndex("c", "x")
	after, _ := db.FindAll(q)
	if len(after) != len(before) {
		fmt.Printf("REPLAY FAIL scenario: indexes on x and xy over 10 documents, DropIndex(x) (result %v): xy >= 0 returned %d documents before the drop and %d after it\n", err, len(before), len(after))
		t.Fatal("dropping one index emptied another whose field name it prefixes")
	}
	fmt.Printf("REPLAY PASS scenario: indexes on x and xy over 10 documents, DropIndex(x) (result %v): xy >= 0 returns %d documents before and after\n", err, len(after))
}

// A descending index scan returns every in-range entry (C17, C02, C08): an inclusive upper bound, an equality
// and the nil-only range must not lose the entries equal to the bound.
func TestVerifReplayReverseScan(t *testing.T) {
	ok := verifReplayPlannerSorted(t, "x <= 5 sorted by x descending", func(c string) *query.Query {
		return query.NewQuery(c).Where(query.Field("x").LtEq(5)).Sort(query.SortOption{Field: "x", Direction: -1})
	}, "x")
	ok = verifReplayPlannerSorted(t, "x = 5 sorted by x descending", func(c string) *query.Query {
		return query.NewQuery(c).Where(query.Field("x").Eq(5)).Sort(query.SortOption{Field: "x", Direction: -1})
	}, "x") && ok
	ok = verifReplayPlannerSorted(t, "x >= 2 And x <= 6 sorted by x descending", func(c string) *query.Query {
		return query.NewQuery(c).Where(query.Field("x").GtEq(2).And(query.Field("x").LtEq(6))).Sort(query.SortOption{Field: "x", Direction: -1})
	}, "x") && ok
	ok = verifReplayPlannerSorted(t, "x < 5 sorted by x descending", func(c string) *query.Query {
		return query.NewQuery(c).Where(query.Field("x").Lt(5)).Sort(query.SortOption{Field: "x", Direction: -1})
	}, "x") && ok
	if !ok {
		t.Fatal("a descending index scan loses the entries equal to its upper bound")
	}
}

// like verifReplayPlanner, but the query brings its own sort (results compared in order)
func verifReplayPlannerSorted(t *testing.T, what string, mk func(coll string) *query.Query, indexed ...string) bool {
	db, err := Open(t.TempDir())
	if err != nil {
		t.Fatal(err)
	}
	defer db.Close()
	for _, coll := range []string{"plain", "indexed"} {
		db.CreateCollection(coll)
		for i := 0; i < 10; i++ {
			doc := d.NewDocument()
			doc.Set("n", i)
			doc.Set("x", i)
			if _, err := db.InsertOne(coll, doc); err != nil {
				t.Fatal(err)
			}
		}
	}
	for _, f := range indexed {
		db.CreateIndex("indexed", f)
	}
	run := func(coll string) string {
		docs, err := db.FindAll(mk(coll))
		if err != nil {
			return "error: " + err.Error()
		}
		s := ""
		for _, doc := range docs {
			s += fmt.Sprintf("%v ", doc.Get("n"))
		}
		return "n = " + s
	}
	plain, idx := run("plain"), run("indexed")
	if plain != idx {
		fmt.Printf("REPLAY FAIL scenario: %s: without an index %s; with an index on %v %s\n", what, plain, indexed, idx)
		return false
	}
	fmt.Printf("REPLAY PASS scenario: %s: %s with and without an index on %v\n", what, plain, indexed)
	return true
}

// Field operands inside In / Contains lists are read from the document (C16, C01): the database layer must
// evaluate them as a direct Satisfy does.
func TestVerifReplayInFieldOperand(t *testing.T) {
	db, err := Open(t.TempDir())
	if err != nil {
		t.Fatal(err)
	}
	defer db.Close()
	db.CreateCollection("c")
	docs := make([]*d.Document, 0)
	for i := 0; i < 10; i++ {
		doc := d.NewDocument()
		doc.Set("x", i)
		doc.Set("y", i%5)
		doc.Set("l", []interface{}{i, 100})
		docs = append(docs, doc)
		db.InsertOne("c", doc)
	}
	failed := 0
	for _, tc := range []struct {
		what string
		c    query.Criteria
	}{
		{"x In (Field(y), 7)", query.Field("x").In(query.Field("y"), 7)},
		{"l Contains (Field(x))", query.Field("l").Contains(query.Field("x"))},
	} {
		direct := 0
		for _, doc := range docs {
			if tc.c.Satisfy(doc) {
				direct++
			}
		}
		n, err := db.Count(query.NewQuery("c").Where(tc.c))
		if n != direct {
			fmt.Printf("REPLAY FAIL scenario: %s: %d of 10 documents satisfy the criteria directly, the database selects %d (result %v)\n", tc.what, direct, n, err)
			failed++
		} else {
			fmt.Printf("REPLAY PASS scenario: %s: %d documents both ways\n", tc.what, n)
		}
	}
	if failed > 0 {
		t.Fatal("a field operand inside an In / Contains list is destroyed by criteria normalisation")
	}
}
