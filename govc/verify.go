package main

import (
	"fmt"
	"go/token"
	"go/types"
	"sort"
	"strings"

	"golang.org/x/tools/go/ssa"
)

func shortKey(k string) string {
	if strings.HasPrefix(k, modPath+"/") {
		return strings.TrimPrefix(k, modPath+"/")
	}
	if strings.HasPrefix(k, modPath+".") {
		return "clover." + strings.TrimPrefix(k, modPath+".")
	}
	return k
}

// VerifyFunc generates every obligation of one function under contract.
func (P *Prog) VerifyFunc(f *ssa.Function, c *Contract) *Trans {
	t := NewTrans(P)
	t.top, t.topC = f, c
	for _, u := range c.Uses {
		t.uses[u] = true
	}
	key := P.FnKey(f)
	t.underContract[key] = true
	var args []string
	names := make([]string, len(f.Params))
	ptypes := make([]types.Type, len(f.Params))
	st0 := State{}
	for i, p := range f.Params {
		n := "p!" + smtSym(p.Name())
		if p.Name() == "_" || p.Name() == "" {
			n = fmt.Sprintf("p!anon%d", i)
		}
		t.emit(fmt.Sprintf("(declare-const %s %s)", n, t.env.SortOf(p.Type())))
		args = append(args, n)
		names[i], ptypes[i] = p.Name(), p.Type()
		t.evalTerms = append(t.evalTerms, n)
		if t.env.SortOf(p.Type()) == "Val" {
			t.evalTerms = append(t.evalTerms, fmt.Sprintf("(unixNano (tval %s))", n))
		}
		if pt, ok := p.Type().Underlying().(*types.Pointer); ok && isStructType(pt.Elem()) {
			stt := pt.Elem().Underlying().(*types.Struct)
			for fi := 0; fi < stt.NumFields(); fi++ {
				if !isStructType(stt.Field(fi).Type()) && !t.env.addrFields[t.env.fieldKey(pt.Elem(), fi)] {
					t.evalTerms = append(t.evalTerms, fmt.Sprintf("(select %s@0 %s)", t.env.fieldComp(pt.Elem(), fi), n))
				}
			}
		}
	}
	fr := t.newFrame(f, args, shortKey(key))
	fr.top = true
	t.topFrame = fr
	fr.contract = c
	fr.tags = c.AllTags()
	for i, fv := range f.FreeVars {
		n := fmt.Sprintf("fv!%d!%s", i, smtSym(fv.Name()))
		t.emit(fmt.Sprintf("(declare-const %s %s)", n, t.env.SortOf(fv.Type())))
		fr.freeVars = append(fr.freeVars, n)
		if pt, isPtr := fv.Type().Underlying().(*types.Pointer); isPtr {
			t.assume("true", fmt.Sprintf("(and (not (= %s null)) (isobj %s))", n, n))
			if P.finalFV[fv] {
				k := fmt.Sprintf("fvval!%d!%s", i, smtSym(fv.Name()))
				t.emit(fmt.Sprintf("(declare-const %s %s)", k, t.env.SortOf(pt.Elem())))
				t.assume("true", t.wfOf(k, pt.Elem(), st0))
				fr.fvFinal[i] = k
				t.evalTerms = append(t.evalTerms, k)
			}
		}
		t.assume("true", t.wfOf(n, fv.Type(), st0))
	}
	// distinct captured cells
	var ptrFVs []string
	for i, fv := range f.FreeVars {
		if _, isPtr := fv.Type().Underlying().(*types.Pointer); isPtr {
			ptrFVs = append(ptrFVs, fr.freeVars[i])
		}
	}
	if len(ptrFVs) > 1 {
		t.assume("true", "(distinct "+strings.Join(ptrFVs, " ")+")")
	}
	for _, g := range c.Ghosts {
		n := "g!" + smtSym(g.Name)
		t.emit(fmt.Sprintf("(declare-const %s %s)", n, g.Sort.String()))
		fr.ghosts[g.Name] = n
		t.evalTerms = append(t.evalTerms, n)
		if g.Sort.String() == "Val" {
			t.evalTerms = append(t.evalTerms, fmt.Sprintf("(unixNano (tval %s))", n))
		}
	}
	t.assume("true", "(>= alloc@0 0)")
	for i, p := range f.Params {
		t.assume("true", t.wfOf(args[i], p.Type(), st0))
	}
	for _, ar := range t.autoRequires(c, names, ptypes, args) {
		t.assume("true", ar)
	}
	// "self": the function value (callback contracts) this body is invoked through
	if f.Signature.Recv() == nil {
		t.emit("(declare-const self!fn Func)")
		t.assume("true", "(not (= self!fn fnil))")
		fr.ghosts["self"] = "self!fn"
	} else if len(args) > 0 {
		fr.ghosts["self"] = t.box(args[0], f.Params[0].Type())
	}
	sc0 := &SpecCtx{t: t, fr: fr, st: st0, old: st0}
	for _, r := range c.Requires {
		t.assume("true", sc0.expandBool(r.Expr))
	}
	for _, m := range c.Maintains {
		t.assume("true", sc0.expandBool(m.Expr))
	}
	for _, a := range c.Assumes {
		t.assume("true", sc0.expandBool(a.Expr))
		t.trustedUsed[c.Key+"#"+a.Label+" (assumed at entry)"] = true
	}
	// reveal: instances of definitional axioms of opaque spec functions
	for _, rv := range c.Extra["reveal"] {
		t.assume("true", revealInstance(sc0, rv))
	}
	// case-split hints for the solver driver (no logical content: the cases are exhaustive)
	for _, x := range c.Extra["split"] {
		t.splitTerms = append(t.splitTerms, sc0.expandBool(x)) // one Boolean term per "extra split" clause
	}
	// vacuity guard: the preconditions are satisfiable
	cov := t.oblige("cover", fr.path+"#cover.requires", fr.tags, "true", "true", f.Pos(), "preconditions are satisfiable (vacuity guard)")
	cov.Expect = "sat"
	t.stack = []*ssa.Function{f}
	t.execBody(fr, "true", st0)
	res, stF, retCond := t.mergeReturns(fr)
	post := &SpecCtx{t: t, fr: fr, st: stF, old: st0}
	rs := f.Signature.Results()
	for i, r := range res {
		post.results = append(post.results, specVal{r, rs.At(i).Type()})
		t.evalTerms = append(t.evalTerms, r)
	}
	for _, rv := range c.Extra["reveal-post"] {
		t.assume(retCond, revealInstance(post, rv))
	}
	// ghost assignments at exit
	for _, eu := range c.ExitUpdates {
		comp := eu[0].Atom
		srt, ok := P.ghostComps[comp]
		if !ok {
			t.errorf("exit-update of unknown ghost component %s", comp)
			continue
		}
		t.env.Comp(comp, srt)
		var nv string
		if eu[1].IsAtom() && eu[1].Atom == "-" {
			nv = t.define(srt, comp+"@x", post.expand(eu[2]))
		} else {
			nv = t.define(srt, comp+"@x", fmt.Sprintf("(store %s %s %s)", stF.get(comp), post.expand(eu[1]), post.expand(eu[2])))
		}
		stF = stF.set(comp, nv)
		post.st = stF
	}
	for _, e := range c.Ensures {
		if e.Kind == "ensures-assumed" {
			continue // assumed at call sites, not proved here: listed in the evidence as an assumption
		}
		g := post.expandBool(e.Expr)
		t.oblige("post", fmt.Sprintf("%s#post.%s", fr.path, labelOr(e.Label, "ens")), tagsOr(e.Tags, fr.tags), retCond, g, f.Pos(), "postcondition "+e.Label)
	}
	for _, m := range c.Maintains {
		t.oblige("post", fmt.Sprintf("%s#post.maintains.%s", fr.path, labelOr(m.Label, "inv")), tagsOr(m.Tags, fr.tags), retCond, post.expandBool(m.Expr), f.Pos(), "closure invariant "+m.Label+" is re-established")
	}
	// frame obligations
	t.frameObligations(fr, stF, st0, retCond)
	covR := t.oblige("cover", fr.path+"#cover.return", fr.tags, "true", retCond, f.Pos(), "some return is reachable (vacuity guard)")
	covR.Expect = "sat"
	return t
}

func (t *Trans) frameObligations(fr *Frame, stF, st0 State, retCond string) {
	c := fr.contract
	for _, x := range c.Extra["unchanged"] {
		for _, comp := range sxAtoms(x) {
			now, before := stF.get(comp), st0.get(comp)
			if now == before {
				continue
			}
			t.oblige("frame", fmt.Sprintf("%s#frame.unchanged.%s", fr.path, comp), append([]string{}, fr.tags...), retCond, fmt.Sprintf("(= %s %s)", now, before), fr.fn.Pos(), comp+" is declared unchanged as a whole (fresh locations included)")
		}
	}
	for _, comp := range stF.keys() {
		now, before := stF.get(comp), st0.get(comp)
		if now == before || comp == "alloc" || strings.HasPrefix(comp, "IT_") {
			continue
		}
		srt := t.env.comps[comp]
		sc := &SpecCtx{t: t, fr: fr, st: st0, old: st0}
		conds, whole := t.modifiesFor(c, comp, sc, "r!f")
		if whole {
			continue
		}
		tags := append([]string{}, fr.tags...)
		if strings.HasPrefix(srt, "(Array Ref ") {
			cs := []string{fmt.Sprintf("(<= (rid r!f) %s)", st0.get("alloc"))}
			for _, e := range conds {
				cs = append(cs, "(not "+e+")")
			}
			g := fmt.Sprintf("(forall ((r!f Ref)) (=> %s (= (select %s r!f) (select %s r!f))))", andTerms(cs...), now, before)
			t.oblige("frame", fmt.Sprintf("%s#frame.%s", fr.path, comp), tags, retCond, g, fr.fn.Pos(), "only locations in the modifies clause (or fresh ones) change in "+comp)
		} else {
			t.oblige("frame", fmt.Sprintf("%s#frame.%s", fr.path, comp), tags, retCond, fmt.Sprintf("(= %s %s)", now, before), fr.fn.Pos(), comp+" is not in the modifies clause and must be unchanged")
		}
	}
}

// VerifyLemma turns a pure lemma into one obligation.
func (P *Prog) VerifyLemma(lm *Lemma) *Trans {
	t := NewTrans(P)
	for _, u := range lm.Uses {
		t.uses[u] = true
	}
	sc := &SpecCtx{t: t, st: State{}, old: State{}}
	g := sc.expandBool(lm.Expr)
	o := &Oblig{Name: "lemma." + lm.Name, Kind: "lemma", Fn: "lemma", Tags: lm.Tags, Goal: g, Ctx: 0, Expect: lm.Expect, Pos: lm.Src, Desc: "lemma " + lm.Name}
	if lm.Expect == "sat" {
		o.Kind = "cover"
	}
	t.obls = append(t.obls, o)
	return t
}

// Header: base prelude, type ids, tyOf, modules, generated declarations, initial state.
func (t *Trans) Header() string {
	t.hdrOnce.Do(func() { t.hdr = t.buildHeader() })
	return t.hdr
}

func (t *Trans) buildHeader() string {
	var b strings.Builder
	b.WriteString("(set-option :produce-models true)\n(set-logic ALL)\n")
	b.WriteString(t.P.preludeMods["base"])
	b.WriteString("\n")
	for i, n := range wellKnownTypes {
		fmt.Fprintf(&b, "(define-fun %s () Int %d)\n", wellKnownSym[i], i+1)
		_ = n
	}
	b.WriteString(`(define-fun tyOf ((v Val)) Int
  (ite ((_ is vnil) v) 0 (ite ((_ is vint) v) (vty v) (ite ((_ is vflt) v) (fty v) (ite ((_ is vstr) v) (sty v)
  (ite ((_ is vbool) v) (bty v) (ite ((_ is vtime) v) TY_time (ite ((_ is vref) v) (rty v) (ite ((_ is vslice) v) (lty v)
  (ite ((_ is vbytes) v) (yty v) (ite ((_ is vfunc) v) (nty v) (oty v))))))))))))
(define-fun val_wf ((v Val) (a Int)) Bool
  (and (=> ((_ is vref) v) (<= (rid (rval v)) a))
       (=> ((_ is vslice) v) (and (slice_wf (lval v)) (<= (rid (sbase (lval v))) a)))
       (=> ((_ is vfunc) v) (<= (rid (fenv (nval v))) a))))
`)
	for _, m := range t.P.usedModules(t.uses) {
		for _, tn := range t.P.modStructs[m] {
			if typ := t.P.typeByName(tn); typ != nil {
				t.env.SortOf(typ)
			}
		}
	}
	b.WriteString(t.env.StructDecls())
	mods := t.expandLits(t.P.preludeText(t.uses))
	b.WriteString(t.env.TypeTable())
	b.WriteString(t.env.LitDecls())
	b.WriteString(mods)
	b.WriteString(t.env.Decls())
	for _, c := range t.env.compOrd {
		fmt.Fprintf(&b, "(declare-const %s@0 %s)\n", c, t.env.comps[c])
	}
	return b.String()
}

var wellKnownSym = []string{
	"TY_int", "TY_int8", "TY_int16", "TY_int32", "TY_int64",
	"TY_uint", "TY_uint8", "TY_uint16", "TY_uint32", "TY_uint64", "TY_uintptr",
	"TY_float32", "TY_float64", "TY_string", "TY_bool",
	"TY_slice", "TY_map", "TY_time", "TY_bytes",
	"TY_ltime", "TY_field", "TY_unary", "TY_binary", "TY_not", "TY_matchfunc", "TY_document",
	"TY_errorString", "TY_strslice", "TY_docslice",
	"TY_infoslice", "TY_rangemap", "TY_vflatten", "TY_vselect", "TY_vrange", "TY_vnorm",
}

func (t *Trans) Query(o *Oblig) string {
	var b strings.Builder
	b.WriteString("; obligation " + o.Name + "\n; " + o.Desc + " @ " + o.Pos + "\n")
	b.WriteString(t.Header())
	for _, c := range t.cmds[:o.Ctx] {
		b.WriteString(c)
		b.WriteByte('\n')
	}
	if o.Expect == "sat" {
		b.WriteString("(assert " + o.Goal + ")\n")
	} else {
		b.WriteString("(assert (not " + o.Goal + "))\n")
	}
	b.WriteString("(check-sat)\n")
	if len(t.evalTerms) > 0 {
		b.WriteString("(get-value (" + strings.Join(t.evalTerms, " ") + "))\n")
	}
	return b.String()
}

func sortedKeys(m map[string]bool) []string {
	var ks []string
	for k := range m {
		ks = append(ks, k)
	}
	sort.Strings(ks)
	return ks
}

var _ = token.NoPos

// revealInstance: (f a b) -> (= (f a b) (f!def a b)), an instance of f's definitional axiom.
func revealInstance(sc *SpecCtx, x *Sx) string {
	if !x.IsL || len(x.List) == 0 {
		return "true"
	}
	if x.Head() == "old" && len(x.List) == 2 {
		// (old (f args)): the instance over the entry heap (for spec functions of heap data the function never writes)
		return revealInstance(sc.inOld(), x.List[1])
	}
	app := sc.expand(x)
	d := &Sx{IsL: true, List: append([]*Sx{A(x.List[0].Atom + "!def")}, x.List[1:]...)}
	return fmt.Sprintf("(= %s %s)", app, sc.expand(d))
}

// expandLits replaces (lit "text") in prelude modules by the symbol of that string literal.
func (t *Trans) expandLits(txt string) string {
	for {
		i := strings.Index(txt, "(lit \"")
		if i < 0 {
			return txt
		}
		j := strings.Index(txt[i+6:], "\")")
		if j < 0 {
			return txt
		}
		lit := txt[i+6 : i+6+j]
		txt = txt[:i] + t.env.Lit(lit) + txt[i+6+j+2:]
	}
}
