package main

import (
	"fmt"
	"go/types"
	"strings"

	"golang.org/x/tools/go/ssa"
)

type specVal struct {
	term string
	typ  types.Type // may be nil (pure SMT value)
}

// SpecCtx expands contract expressions (S-expressions with macros) into SMT terms.
type SpecCtx struct {
	t        *Trans
	fr       *Frame // frame whose source-level names are visible (nil at call sites)
	callerFr *Frame
	st       State
	old      State
	names    map[string]specVal
	results  []specVal
	at       *ssa.BasicBlock
	phiOv    map[*ssa.Phi]string
	bound    map[string]string
	boundTyp map[string]types.Type
}

func (sc *SpecCtx) withBound(v, term string) *SpecCtx {
	n := *sc
	n.bound = map[string]string{}
	n.boundTyp = map[string]types.Type{}
	for k, x := range sc.bound {
		n.bound[k] = x
		n.boundTyp[k] = sc.boundTyp[k]
	}
	n.bound[v] = term
	return &n
}

func (sc *SpecCtx) inOld() *SpecCtx {
	n := *sc
	n.st = sc.old
	return &n
}

func (sc *SpecCtx) expandBool(x *Sx) string { return sc.expand(x) }

func (sc *SpecCtx) expand(x *Sx) string {
	v := sc.eval(x)
	return v.term
}

func (sc *SpecCtx) lookup(name string) (specVal, bool) {
	if sc.bound != nil {
		if v, ok := sc.bound[name]; ok {
			return specVal{v, sc.boundTyp[name]}, true
		}
	}
	if sc.names != nil {
		if v, ok := sc.names[name]; ok {
			return v, true
		}
	}
	if name == "result" && len(sc.results) > 0 {
		return sc.results[0], true
	}
	if strings.HasPrefix(name, "result") && len(name) == 7 && name[6] >= '0' && name[6] <= '9' {
		i := int(name[6] - '0')
		if i < len(sc.results) {
			return sc.results[i], true
		}
	}
	if sc.fr != nil {
		if v, ok := sc.fr.ghosts[name]; ok {
			return specVal{v, nil}, true
		}
		if term, typ, ok := sc.fr.lookupVar(name, sc.at, sc.st, sc.phiOv); ok {
			return specVal{term, typ}, true
		}
		// named results
		if sc.fr.fn.Signature.Results() != nil {
			rs := sc.fr.fn.Signature.Results()
			for i := 0; i < rs.Len(); i++ {
				if rs.At(i).Name() == name && i < len(sc.results) {
					return sc.results[i], true
				}
			}
		}
	}
	return specVal{}, false
}

func derefType(t types.Type) types.Type {
	if t == nil {
		return nil
	}
	if p, ok := t.Underlying().(*types.Pointer); ok {
		return p.Elem()
	}
	return nil
}

func (sc *SpecCtx) eval(x *Sx) specVal {
	t := sc.t
	env := t.env
	if x.IsAtom() {
		if v, ok := sc.lookup(x.Atom); ok {
			return v
		}
		return specVal{x.Atom, nil}
	}
	if len(x.List) == 0 {
		return specVal{"()", nil}
	}
	h := x.Head()
	args := x.List[1:]
	switch h {
	case "old":
		return sc.inOld().eval(args[0])
	case "at":
		// (at <snapshot label> e): e evaluated in the state named by a snapshot clause
		if st, ok := t.snapshots[args[0].Atom]; ok {
			n := *sc
			n.st = st
			return n.eval(args[1])
		}
		t.errorf("spec: unknown snapshot %s", args[0].Atom)
		return specVal{"false", nil}
	case "bv":
		var n int64
		fmt.Sscanf(args[0].Atom, "%d", &n)
		return specVal{bvLit(uint64(n), 64), nil}
	case "lit":
		s := args[0].Atom
		s = strings.Trim(s, "\"")
		return specVal{env.Lit(s), nil}
	case "st":
		name := args[0].Atom
		if srt, ok := t.P.ghostComps[name]; ok {
			env.Comp(name, srt)
		} else if srt, ok := t.P.stateFunSorts[name]; ok {
			env.Comp(name, srt)
		}
		return specVal{sc.st.get(name), nil}
	case "alloc":
		return specVal{sc.st.get("alloc"), nil}
	case "@":
		base := sc.eval(args[0])
		fname := args[1].Atom
		return sc.fieldOf(base, fname, x)
	case "deref":
		p := sc.eval(args[0])
		el := derefType(p.typ)
		if el == nil {
			t.errorf("spec: deref of untyped term %s", args[0])
			return specVal{"undefined!deref", nil}
		}
		return specVal{t.loadFrom(nil, nil, p.term, el, sc.st), el}
	case "len":
		a := sc.eval(args[0])
		if a.typ == nil {
			t.errorf("spec: len of untyped term %s (use slen/sllen/blen)", args[0])
			return specVal{"undefined!len", nil}
		}
		switch env.SortOf(a.typ) {
		case "Str":
			return specVal{fmt.Sprintf("(slen %s)", a.term), types.Typ[types.Int]}
		case "Bytes":
			return specVal{fmt.Sprintf("(blen %s)", a.term), types.Typ[types.Int]}
		case "Slice":
			return specVal{fmt.Sprintf("(sllen %s)", a.term), types.Typ[types.Int]}
		case "Ref":
			if _, ok := a.typ.Underlying().(*types.Map); ok {
				_, _, ln := env.mapComps(a.typ)
				return specVal{fmt.Sprintf("(ite (= %s null) %s (select %s %s))", a.term, zero64, sc.st.get(ln), a.term), types.Typ[types.Int]}
			}
		}
		t.errorf("spec: len of %s", a.typ)
		return specVal{"undefined!len", nil}
	case "idx":
		a := sc.eval(args[0])
		i := sc.expand(args[1])
		if a.typ == nil {
			t.errorf("spec: idx of untyped term %s", args[0])
			return specVal{"undefined!idx", nil}
		}
		sl, ok := a.typ.Underlying().(*types.Slice)
		if !ok {
			t.errorf("spec: idx of non-slice %s", a.typ)
			return specVal{"undefined!idx", nil}
		}
		addr := fmt.Sprintf("(selemaddr %s %s)", a.term, i)
		if isStructType(sl.Elem()) {
			return specVal{addr, types.NewPointer(sl.Elem())}
		}
		return specVal{fmt.Sprintf("(select %s %s)", sc.st.get(env.cellComp(sl.Elem())), addr), sl.Elem()}
	case "mhas", "mget":
		m := sc.eval(args[0])
		k := sc.expand(args[1])
		if m.typ == nil {
			t.errorf("spec: %s of untyped term %s", h, args[0])
			return specVal{"undefined!map", nil}
		}
		mt, ok := m.typ.Underlying().(*types.Map)
		if !ok {
			t.errorf("spec: %s of non-map %s", h, m.typ)
			return specVal{"undefined!map", nil}
		}
		has, val, _ := env.mapComps(m.typ)
		if h == "mhas" {
			return specVal{fmt.Sprintf("(and (not (= %s null)) (select (select %s %s) %s))", m.term, sc.st.get(has), m.term, k), types.Typ[types.Bool]}
		}
		return specVal{fmt.Sprintf("(select (select %s %s) %s)", sc.st.get(val), m.term, k), mt.Elem()}
	case "box":
		a := sc.eval(args[0])
		if a.typ == nil {
			t.errorf("spec: box of untyped term")
			return specVal{"vnil", nil}
		}
		return specVal{t.box(a.term, a.typ), nil}
	case "visited":
		// (visited k): visited set of the (single) map range in this frame; (visited n k) for the n-th
		if sc.fr == nil {
			break
		}
		n := 0
		kx := args[0]
		if len(args) == 2 {
			fmt.Sscanf(args[0].Atom, "%d", &n)
			kx = args[1]
		}
		var ranges []*ssa.Range
		for _, b := range sc.fr.fn.Blocks {
			for _, in := range b.Instrs {
				if r, ok := in.(*ssa.Range); ok {
					ranges = append(ranges, r)
				}
			}
		}
		if n >= len(ranges) {
			t.errorf("spec: no map range #%d in %s", n, sc.fr.path)
			return specVal{"false", nil}
		}
		c := t.iterComp(sc.fr, ranges[n])
		return specVal{fmt.Sprintf("(select %s %s)", sc.st.get(c), sc.expand(kx)), nil}
	case "forall", "exists":
		sub := sc
		var bs []string
		for _, b := range args[0].List {
			v := b.List[0].Atom
			sub = sub.withBound(v, v)
			bs = append(bs, fmt.Sprintf("(%s %s)", v, b.List[1].String()))
		}
		return specVal{fmt.Sprintf("(%s (%s) %s)", h, strings.Join(bs, " "), sub.expand(args[1])), nil}
	case "let":
		sub := sc
		var bs []string
		typs := map[string]types.Type{}
		for _, b := range args[0].List {
			v := b.List[0].Atom
			val := sc.eval(b.List[1])
			typs[v] = val.typ
			bs = append(bs, fmt.Sprintf("(%s %s)", v, val.term))
		}
		for _, b := range args[0].List {
			sub = sub.withBound(b.List[0].Atom, b.List[0].Atom)
			sub.boundTyp[b.List[0].Atom] = typs[b.List[0].Atom]
		}
		return specVal{fmt.Sprintf("(let (%s) %s)", strings.Join(bs, " "), sub.expand(args[1])), nil}
	case "unchanged-old":
		// (unchanged-old COMP): locations that existed at the old state keep their old value in COMP
		name := args[0].Atom
		return specVal{fmt.Sprintf("(forall ((r!u Ref)) (! (=> (<= (rid r!u) %s) (= (select %s r!u) (select %s r!u))) :pattern ((select %s r!u))))",
			sc.old.get("alloc"), sc.st.get(name), sc.old.get(name), sc.st.get(name)), nil}
	case "rangeslice":
		// the slice a "for range" loop iterates over (evaluated once, before the loop)
		if sc.fr != nil && sc.at != nil {
			if lr := sc.fr.loops[sc.at]; lr != nil {
				for b := range lr.body {
					for _, in := range b.Instrs {
						if ia, ok := in.(*ssa.IndexAddr); ok {
							if bo, ok := ia.Index.(*ssa.BinOp); ok {
								if phi, ok := bo.X.(*ssa.Phi); ok && phi.Block() == sc.at && phi.Comment == "rangeindex" {
									if _, done := sc.fr.vals[ia.X]; done {
										return specVal{sc.fr.val(ia.X), ia.X.Type()}
									}
								}
							}
						}
					}
				}
			}
		}
		t.errorf("spec: rangeslice used outside a range-over-slice loop")
		return specVal{"nilslice", nil}
	case "tyid":
		// (tyid *pkg.Type) / (tyid pkg.Type): the dynamic-type id of a named (pointer) type
		name := args[0].Atom
		typ := t.P.typeExpr(name)
		if typ == nil {
			t.errorf("spec: unknown type %s in tyid", name)
			return specVal{"0", nil}
		}
		return specVal{env.TyIDTerm(typ), nil}
	case "global":
		// (global pkg.Name): value of a package-level variable that is never assigned after init
		name := args[0].Atom
		i := strings.LastIndex(name, ".")
		for _, p := range t.P.pkgs {
			if i > 0 && p.Pkg.Name() == name[:i] && strings.HasPrefix(p.Pkg.Path(), modPath) {
				if g, ok := p.Members[name[i+1:]].(*ssa.Global); ok && t.P.immutable[g] {
					return specVal{t.immutableGlobal(g), g.Type().(*types.Pointer).Elem()}
				}
			}
		}
		for _, p := range t.P.prog.AllPackages() {
			if i > 0 && p.Pkg.Name() == name[:i] {
				if g, ok := p.Members[name[i+1:]].(*ssa.Global); ok && t.P.libSentinel(g) {
					return specVal{t.libSentinelTerm(g), g.Type().(*types.Pointer).Elem()}
				}
			}
		}
		t.errorf("spec: no immutable global %s", name)
		return specVal{"vnil", nil}
	case "cast":
		// (cast e pkg.Type): e is a reference to a value of the named struct type
		// (cast e map[K]V) / (cast e []T) / (cast e *T): e has that type
		v := sc.eval(args[0])
		typ := t.P.typeExpr(args[1].Atom)
		if typ == nil {
			t.errorf("spec: unknown type %s in cast", args[1].Atom)
			return v
		}
		if _, named := typ.(*types.Named); named {
			typ = types.NewPointer(typ)
		}
		return specVal{v.term, typ}
	case "reveal":
		return specVal{revealInstance(sc, args[0]), nil}
	case "_", "as":
		return specVal{x.String(), nil}
	}
	// state-dependent spec functions: names ending in '$' get the current versions of the
	// components listed in their declaration (prelude line "; statefun: name comp comp ...").
	if comps, ok := t.P.stateFuns[h]; ok {
		parts := []string{h}
		for _, c := range comps {
			if srt, ok := t.P.ghostComps[c]; ok {
				env.Comp(c, srt)
			} else if srt, ok := t.P.stateFunSorts[c]; ok {
				env.Comp(c, srt)
			}
			parts = append(parts, sc.st.get(c))
		}
		for _, a := range args {
			parts = append(parts, sc.expand(a))
		}
		return specVal{"(" + strings.Join(parts, " ") + ")", nil}
	}
	parts := make([]string, 0, len(x.List))
	if x.List[0].IsAtom() {
		parts = append(parts, x.List[0].Atom)
	} else {
		parts = append(parts, sc.expandRaw(x.List[0]))
	}
	for _, a := range args {
		if a.IsAtom() && strings.HasPrefix(a.Atom, ":") {
			parts = append(parts, a.Atom)
			continue
		}
		parts = append(parts, sc.expand(a))
	}
	return specVal{"(" + strings.Join(parts, " ") + ")", nil}
}

// expandRaw expands a head that is itself a list, e.g. ((_ extract 7 0) x) or ((_ is vint) v).
func (sc *SpecCtx) expandRaw(x *Sx) string {
	if x.Head() == "_" || x.Head() == "as" {
		return x.String()
	}
	return sc.expand(x)
}

func (sc *SpecCtx) fieldOf(base specVal, fname string, x *Sx) specVal {
	t := sc.t
	env := t.env
	if base.typ == nil {
		t.errorf("spec: field %s of untyped term in %s", fname, x)
		return specVal{"undefined!field", nil}
	}
	styp := base.typ
	isPtr := false
	if p, ok := styp.Underlying().(*types.Pointer); ok {
		styp = p.Elem()
		isPtr = true
	}
	st, ok := styp.Underlying().(*types.Struct)
	if !ok {
		t.errorf("spec: field %s of non-struct %s", fname, base.typ)
		return specVal{"undefined!field", nil}
	}
	for i := 0; i < st.NumFields(); i++ {
		if st.Field(i).Name() != fname {
			continue
		}
		ft := st.Field(i).Type()
		if !isPtr {
			si := env.structInfoOf(styp)
			return specVal{fmt.Sprintf("(%s %s)", si.fields[i], base.term), ft}
		}
		if isStructType(ft) {
			return specVal{fmt.Sprintf("(fld %s %d)", base.term, i), types.NewPointer(ft)}
		}
		return specVal{t.loadField(base.term, styp, i, sc.st), ft}
	}
	// promoted field through embedded structs
	for i := 0; i < st.NumFields(); i++ {
		if st.Field(i).Embedded() {
			ft := st.Field(i).Type()
			var inner specVal
			if isPtr {
				if isStructType(ft) {
					inner = specVal{fmt.Sprintf("(fld %s %d)", base.term, i), types.NewPointer(ft)}
				} else {
					inner = specVal{t.loadField(base.term, styp, i, sc.st), ft}
				}
			} else {
				si := env.structInfoOf(styp)
				inner = specVal{fmt.Sprintf("(%s %s)", si.fields[i], base.term), ft}
			}
			et := ft
			if p, ok := et.Underlying().(*types.Pointer); ok {
				et = p.Elem()
			}
			if est, ok := et.Underlying().(*types.Struct); ok {
				for j := 0; j < est.NumFields(); j++ {
					if est.Field(j).Name() == fname {
						return sc.fieldOf(inner, fname, x)
					}
				}
			}
		}
	}
	t.errorf("spec: no field %s in %s", fname, styp)
	return specVal{"undefined!field", nil}
}

// locationOf resolves a modifies item of the form (@ e field) to (component, index term).
func (sc *SpecCtx) locationOf(x *Sx) (comp, index string, ok bool) {
	if x.Head() != "@" || len(x.List) != 3 {
		return "", "", false
	}
	base := sc.eval(x.List[1])
	if base.typ == nil {
		return "", "", false
	}
	styp := derefType(base.typ)
	if styp == nil {
		return "", "", false
	}
	st, isSt := styp.Underlying().(*types.Struct)
	if !isSt {
		return "", "", false
	}
	for i := 0; i < st.NumFields(); i++ {
		if st.Field(i).Name() == x.List[2].Atom {
			if sc.t.env.addrFields[sc.t.env.fieldKey(styp, i)] {
				return sc.t.env.cellComp(st.Field(i).Type()), fmt.Sprintf("(fld %s %d)", base.term, i), true
			}
			return sc.t.env.fieldComp(styp, i), base.term, true
		}
	}
	return "", "", false
}
