package main

import (
	"flag"
	"fmt"
	"os"
	"sort"
	"strings"
)

func main() {
	if len(os.Args) < 2 {
		fmt.Fprintln(os.Stderr, "usage: govc <list|ssa|check|lemmas> ...")
		os.Exit(2)
	}
	cmd := os.Args[1]
	fs := flag.NewFlagSet(cmd, flag.ExitOnError)
	repo := fs.String("repo", "/repo", "repository working tree")
	verif := fs.String("verif", "/verif", "verification directory")
	prop := fs.String("prop", "", "property id (C01..C20) or 'all'")
	tier := fs.String("tier", "quick", "quick|thorough")
	fnFilter := fs.String("fn", "", "only functions whose key contains this")
	obFilter := fs.String("ob", "", "only obligations whose name contains this")
	outDir := fs.String("out", "", "scratch output directory (default <verif>/out)")
	evidence := fs.String("evidence", "", "evidence file to write")
	verbose := fs.Bool("v", false, "verbose")
	noBaseline := fs.Bool("nobaseline", false, "ignore the baseline (report every undischarged obligation)")
	updateBaseline := fs.Bool("update-baseline", false, "rewrite the baseline entry of this property from this run")
	pkgsFlag := fs.String("pkgs", "", "comma-separated package patterns to load instead of clover's (engine self-test corpus)")
	fs.Parse(os.Args[2:])
	if *pkgsFlag != "" {
		cloverPkgs = strings.Split(*pkgsFlag, ",")
	}
	if *outDir == "" {
		*outDir = *verif + "/out"
	}
	P, err := LoadProg(*repo, *verif)
	if err != nil {
		fmt.Fprintln(os.Stderr, "govc: load:", err)
		if cmd == "check" && *prop != "" {
			loadFailure(*verif, *prop, *tier, *evidence, err)
		}
		os.Exit(2)
	}
	if err := P.LoadContracts(); err != nil {
		fmt.Fprintln(os.Stderr, "govc: contracts:", err)
		if cmd == "check" && *prop != "" {
			loadFailure(*verif, *prop, *tier, *evidence, err)
		}
		os.Exit(2)
	}
	switch cmd {
	case "ifacecheck":
		for _, l := range P.uncheckedImplementers(false) {
			fmt.Println(l)
		}
		return
	case "list":
		var ks []string
		for k, f := range P.fnByKey {
			if P.isClover(f) && (*fnFilter == "" || strings.Contains(k, *fnFilter)) {
				ks = append(ks, k)
			}
		}
		sort.Strings(ks)
		for _, k := range ks {
			mark := " "
			if c := P.cs.ByKey[k]; c != nil {
				mark = "C"
				if c.Trusted {
					mark = "T"
				}
			}
			fmt.Printf("%s %s\n", mark, k)
		}
	case "ssa":
		for k, f := range P.fnByKey {
			if *fnFilter != "" && strings.Contains(k, *fnFilter) && P.isClover(f) {
				f.WriteTo(os.Stdout)
			}
		}
	case "writes":
		env := NewTypeEnv()
		env.addrFields = P.addrFields
		for k, f := range P.fnByKey {
			if *fnFilter != "" && strings.Contains(k, *fnFilter) && P.isClover(f) {
				fmt.Println(k)
				for _, b := range f.Blocks {
					for _, in := range b.Instrs {
						w := P.instrWrites(env, f, in)
						if len(w) > 0 {
							var ks []string
							for c := range w {
								ks = append(ks, c)
							}
							sort.Strings(ks)
							fmt.Printf("   %-60.60s -> %v\n", in.String(), ks)
						}
					}
				}
			}
		}
	case "check":
		code := runCheck(P, CheckOpts{Prop: *prop, Tier: *tier, FnFilter: *fnFilter, ObFilter: *obFilter, OutDir: *outDir, Evidence: *evidence, Verbose: *verbose, NoBaseline: *noBaseline, UpdateBaseline: *updateBaseline})
		os.Exit(code)
	default:
		fmt.Fprintln(os.Stderr, "unknown command", cmd)
		os.Exit(2)
	}
}
