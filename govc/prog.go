package main

import (
	"fmt"
	"go/types"
	"os"
	"path/filepath"
	"sort"
	"strings"

	"golang.org/x/tools/go/packages"
	"golang.org/x/tools/go/ssa"
	"golang.org/x/tools/go/ssa/ssautil"
)

const modPath = "github.com/ostafen/clover/v2"

var cloverPkgs = []string{".", "./query", "./index", "./internal", "./util", "./document", "./store", "./store/bbolt", "./store/badger"}

type Prog struct {
	RepoDir   string
	VerifDir  string
	prog      *ssa.Program
	pkgs      []*ssa.Package
	ppkgs     []*packages.Package
	fnByKey   map[string]*ssa.Function
	keyOf     map[*ssa.Function]string
	cs        *ContractSet
	immutable map[*ssa.Global]bool
	globalInit map[*ssa.Global]ssa.Value // value stored in init (if unique)
	writesMemo map[*ssa.Function]map[string]string
	writesBusy map[*ssa.Function]bool
	implMemo  map[string][]*ssa.Function
	allTypes  []types.Type
	addrFields map[string]bool
	preludeMods map[string]string
	ghostComps map[string]string // ghost component name -> sort (from prelude modules)
	ghostOrd   []string
	modDeps    map[string][]string
	knownComps map[string]string
	stateFuns  map[string][]string
	stateFunSorts map[string]string
	globalMaps map[*ssa.Global][][2]*ssa.Const
	finalFV    map[*ssa.FreeVar]bool
	modStructs map[string][]string
}

func goEnv() []string {
	return append(os.Environ(), "GOFLAGS=-mod=mod", "GOPROXY=off", "GOSUMDB=off", "GOTOOLCHAIN=local")
}

func LoadProg(repo, verif string) (*Prog, error) {
	cfg := &packages.Config{Mode: packages.LoadAllSyntax, Dir: repo, BuildFlags: []string{"-tags=verif"}, Env: goEnv()}
	pkgs, err := packages.Load(cfg, cloverPkgs...)
	if err != nil {
		return nil, err
	}
	nerr := 0
	packages.Visit(pkgs, nil, func(p *packages.Package) {
		for _, e := range p.Errors {
			if strings.HasPrefix(p.PkgPath, modPath) {
				fmt.Fprintf(os.Stderr, "load error: %v\n", e)
				nerr++
			}
		}
	})
	if nerr > 0 {
		return nil, fmt.Errorf("%d errors loading %s (the tree does not compile with -tags verif)", nerr, repo)
	}
	prog, spkgs := ssautil.AllPackages(pkgs, ssa.GlobalDebug)
	prog.Build()
	P := &Prog{RepoDir: repo, VerifDir: verif, prog: prog, ppkgs: pkgs,
		fnByKey: map[string]*ssa.Function{}, keyOf: map[*ssa.Function]string{},
		immutable: map[*ssa.Global]bool{}, globalInit: map[*ssa.Global]ssa.Value{},
		writesMemo: map[*ssa.Function]map[string]string{}, writesBusy: map[*ssa.Function]bool{},
		implMemo: map[string][]*ssa.Function{}, addrFields: map[string]bool{},
		preludeMods: map[string]string{}, ghostComps: map[string]string{}, modDeps: map[string][]string{}, knownComps: map[string]string{}, stateFuns: map[string][]string{}, stateFunSorts: map[string]string{}, modStructs: map[string][]string{}, globalMaps: map[*ssa.Global][][2]*ssa.Const{}}
	for _, p := range spkgs {
		if p != nil {
			P.pkgs = append(P.pkgs, p)
		}
	}
	for f := range ssautil.AllFunctions(prog) {
		if f.Pkg == nil && f.Parent() == nil && f.Synthetic == "" {
			continue
		}
		k := P.FnKey(f)
		if k != "" {
			if old, dup := P.fnByKey[k]; dup && old != f {
				// wrappers/thunks share names; prefer the one with source syntax
				if old.Syntax() != nil {
					continue
				}
			}
			P.fnByKey[k] = f
		}
	}
	// declared methods of clover's named types that nothing in the loaded packages calls (e.g. the criteria builders
	// of the unexported type query.field) are not among AllFunctions: add them, they can be put under contract too
	for _, sp := range P.pkgs {
		if !strings.HasPrefix(sp.Pkg.Path(), modPath) {
			continue
		}
		scope := sp.Pkg.Scope()
		for _, name := range scope.Names() {
			tn, ok := scope.Lookup(name).(*types.TypeName)
			if !ok {
				continue
			}
			named, ok := tn.Type().(*types.Named)
			if !ok {
				continue
			}
			for i := 0; i < named.NumMethods(); i++ {
				if f := prog.FuncValue(named.Method(i)); f != nil {
					if k := P.FnKey(f); k != "" {
						if _, have := P.fnByKey[k]; !have {
							P.fnByKey[k] = f
						}
					}
				}
			}
		}
	}
	P.scanGlobals()
	P.scanAddrFields()
	P.scanFinalCaptures()
	P.collectTypes()
	return P, nil
}

// FnKey: <pkgpath>.<relname>; closures are <parentrel>$n.
func (P *Prog) FnKey(f *ssa.Function) string {
	if k, ok := P.keyOf[f]; ok {
		return k
	}
	var k string
	if f.Parent() != nil {
		// anonymous function: name like "replaceDocs$1"; build from parent's key
		pk := P.FnKey(f.Parent())
		name := f.Name()
		if i := strings.LastIndex(name, "$"); i >= 0 {
			k = pk + name[i:]
		} else {
			k = pk + "$" + name
		}
	} else if f.Pkg != nil {
		k = f.Pkg.Pkg.Path() + "." + f.RelString(f.Pkg.Pkg)
	} else {
		k = f.String()
	}
	P.keyOf[f] = k
	return k
}

func (P *Prog) isClover(f *ssa.Function) bool {
	if f.Pkg == nil && f.Parent() == nil && f.Synthetic != "" {
		// wrapper / thunk of a promoted or interface method: belongs to the receiver's package
		if r := f.Signature.Recv(); r != nil {
			rt := r.Type()
			if p, ok := rt.(*types.Pointer); ok {
				rt = p.Elem()
			}
			if n, ok := rt.(*types.Named); ok && n.Obj().Pkg() != nil {
				pp := n.Obj().Pkg().Path()
				return strings.HasPrefix(pp, modPath) && !strings.Contains(pp, "/examples")
			}
		}
		return false
	}
	for g := f; g != nil; g = g.Parent() {
		if g.Pkg != nil {
			return strings.HasPrefix(g.Pkg.Pkg.Path(), modPath) && !strings.Contains(g.Pkg.Pkg.Path(), "/examples")
		}
	}
	return false
}

// scanGlobals finds package-level variables of the clover packages that are never stored to
// outside package initialisation; loads from them are modelled as constants.
func (P *Prog) scanGlobals() {
	stored := map[*ssa.Global]int{}
	for f := range ssautil.AllFunctions(P.prog) {
		isInit := f.Name() == "init" && f.Parent() == nil
		for _, b := range f.Blocks {
			for _, in := range b.Instrs {
				var ops [10]*ssa.Value
				for _, op := range in.Operands(ops[:0]) {
					g, ok := (*op).(*ssa.Global)
					if !ok {
						continue
					}
					if st, isStore := in.(*ssa.Store); isStore && st.Addr == g {
						if isInit {
							P.globalInit[g] = st.Val
						} else {
							stored[g]++
						}
						continue
					}
					if u, isLoad := in.(*ssa.UnOp); isLoad && u.X == g {
						continue
					}
					// address escapes (passed somewhere): treat as mutable
					if !isInit {
						stored[g]++
					}
				}
			}
		}
	}
	for _, p := range P.pkgs {
		for _, m := range p.Members {
			if g, ok := m.(*ssa.Global); ok && stored[g] == 0 {
				P.immutable[g] = true
				if mk, ok := P.globalInit[g].(*ssa.MakeMap); ok {
					var ents [][2]*ssa.Const
					good := true
					for _, r := range *mk.Referrers() {
						mu, isMU := r.(*ssa.MapUpdate)
						if !isMU {
							continue
						}
						kc, k1 := mu.Key.(*ssa.Const)
						vc, k2 := mu.Value.(*ssa.Const)
						if !k1 || !k2 {
							good = false
							break
						}
						ents = append(ents, [2]*ssa.Const{kc, vc})
					}
					if good {
						P.globalMaps[g] = ents
					}
				}
			}
		}
	}
}

// scanAddrFields finds struct fields whose address is used for anything but a direct load/store.
func (P *Prog) scanAddrFields() {
	env := NewTypeEnv()
	for f := range ssautil.AllFunctions(P.prog) {
		if !P.isClover(f) {
			continue
		}
		for _, b := range f.Blocks {
			for _, in := range b.Instrs {
				fa, ok := in.(*ssa.FieldAddr)
				if !ok {
					continue
				}
				st := fa.X.Type().Underlying().(*types.Pointer).Elem()
				if _, isStruct := st.Underlying().(*types.Struct).Field(fa.Field).Type().Underlying().(*types.Struct); isStruct && !isTimeType(st.Underlying().(*types.Struct).Field(fa.Field).Type()) {
					continue
				}
				for _, r := range *fa.Referrers() {
					switch u := r.(type) {
					case *ssa.UnOp:
						continue
					case *ssa.Store:
						if u.Addr == fa && u.Val != fa {
							continue
						}
					case *ssa.DebugRef:
						continue
					}
					P.addrFields[env.fieldKey(st, fa.Field)] = true
				}
			}
		}
	}
}

func (P *Prog) collectTypes() {
	seen := map[string]bool{}
	for _, p := range P.pkgs {
		if !strings.HasPrefix(p.Pkg.Path(), modPath) {
			continue
		}
		for _, m := range p.Members {
			if t, ok := m.(*ssa.Type); ok {
				T := t.Type()
				for _, tt := range []types.Type{T, types.NewPointer(T)} {
					k := tyKey(tt)
					if !seen[k] {
						seen[k] = true
						P.allTypes = append(P.allTypes, tt)
					}
				}
			}
		}
	}
	sort.Slice(P.allTypes, func(i, j int) bool { return tyKey(P.allTypes[i]) < tyKey(P.allTypes[j]) })
}

// Implementations of interface type it within the clover packages (closed world, assumption A12).
func (P *Prog) implementers(it *types.Interface) []types.Type {
	var out []types.Type
	for _, t := range P.allTypes {
		if _, isIface := t.Underlying().(*types.Interface); isIface {
			continue
		}
		if types.Implements(t, it) {
			// prefer pointer receiver type only when value type does not implement
			out = append(out, t)
		}
	}
	return out
}

func (P *Prog) LoadContracts() error {
	P.cs = &ContractSet{ByKey: map[string]*Contract{}}
	for _, pp := range P.ppkgs {
		for _, f := range pp.GoFiles {
			if strings.HasSuffix(f, "contracts_verif.go") {
				if err := P.cs.parseFile(f, pp.PkgPath, false); err != nil {
					return err
				}
			}
		}
	}
	ext, _ := filepath.Glob(filepath.Join(P.VerifDir, "prelude", "*.contracts"))
	lem, _ := filepath.Glob(filepath.Join(P.VerifDir, "lemmas", "*.contracts"))
	ext = append(ext, lem...)
	sort.Strings(ext)
	for _, f := range ext {
		if err := P.cs.parseFile(f, "", true); err != nil {
			return err
		}
	}
	if err := P.loadPreludeModules(); err != nil {
		return err
	}
	return P.mergeImplements()
}

// mergeImplements: a contract saying "implements X" imports the clauses of X (a generic callback
// specification "@name" of the same package, or another contract key).
func (P *Prog) mergeImplements() error {
	done := map[string]bool{}
	var merge func(c *Contract, depth int) error
	merge = func(c *Contract, depth int) error {
		if c.Impl == "" || done[c.Key] {
			return nil
		}
		if depth > 5 {
			return fmt.Errorf("%s: implements chain too deep", c.Key)
		}
		gk := c.Impl
		if strings.HasPrefix(gk, "@") {
			pp := c.PkgPath
			if pp == "" {
				pp = modPath
			}
			gk = pp + "." + gk
		} else if !strings.Contains(gk, "/") && c.PkgPath != "" {
			gk = c.PkgPath + "." + gk
		}
		g := P.cs.ByKey[gk]
		if g == nil {
			g = P.cs.ByKey[modPath+"."+c.Impl]
		}
		if g == nil {
			g = P.cs.ByKey[modPath+"/"+c.Impl] // "<package name>.<Iface>.<method>" of another clover package
		}
		if g == nil {
			return fmt.Errorf("%s (%s): implements unknown contract %s", c.Key, c.Src, c.Impl)
		}
		if err := merge(g, depth+1); err != nil {
			return err
		}
		if g.Iface && len(c.Requires) > 0 {
			return fmt.Errorf("%s (%s): implements interface contract %s but adds preconditions callers through the interface cannot know (use assumes, or put them in the interface contract)", c.Key, c.Src, g.Key)
		}
		c.ImplKey = g.Key
		if g.ImplKey != "" && strings.Contains(g.Key, "@") && !strings.Contains(g.Key, ".@") {
			c.ImplKey = g.ImplKey
		}
		c.Requires = append(append([]*Clause{}, g.Requires...), c.Requires...)
		c.NImportedReq = len(g.Requires)
		c.Ensures = append(append([]*Clause{}, g.Ensures...), c.Ensures...)
		c.Modifies = append(append([]*Sx{}, g.Modifies...), c.Modifies...)
		c.ExitUpdates = append(append([][3]*Sx{}, g.ExitUpdates...), c.ExitUpdates...)
		for _, gg := range g.Ghosts {
			dup := false
			for _, cg := range c.Ghosts {
				dup = dup || cg.Name == gg.Name
			}
			if !dup {
				c.Ghosts = append(c.Ghosts, gg)
			}
		}
		c.HasMod = c.HasMod || g.HasMod
		c.Uses = append(append([]string{}, g.Uses...), c.Uses...)
		if len(c.Params) == 0 {
			c.Params = g.Params
		}
		for k, v := range g.Extra {
			c.Extra[k] = append(append([]*Sx{}, v...), c.Extra[k]...)
		}
		done[c.Key] = true
		return nil
	}
	var keys []string
	for k := range P.cs.ByKey {
		keys = append(keys, k)
	}
	sort.Strings(keys)
	for _, k := range keys {
		if err := merge(P.cs.ByKey[k], 0); err != nil {
			return err
		}
	}
	return nil
}

// prelude modules: prelude/<name>.smt2; a line "; requires: a b" lists dependencies;
// a line "; ghost: name sort" declares a ghost state component.
func (P *Prog) loadPreludeModules() error {
	files, _ := filepath.Glob(filepath.Join(P.VerifDir, "prelude", "*.smt2"))
	for _, f := range files {
		name := strings.TrimSuffix(filepath.Base(f), ".smt2")
		data, err := os.ReadFile(f)
		if err != nil {
			return err
		}
		P.preludeMods[name] = string(data)
		for _, line := range strings.Split(string(data), "\n") {
			line = strings.TrimSpace(line)
			if strings.HasPrefix(line, "; requires:") {
				P.modDeps[name] = strings.Fields(strings.TrimPrefix(line, "; requires:"))
			}
			if strings.HasPrefix(line, "; struct:") {
				P.modStructs[name] = append(P.modStructs[name], strings.Fields(strings.TrimPrefix(line, "; struct:"))...)
			}
			if strings.HasPrefix(line, "; statefun:") {
				fs := strings.Fields(strings.TrimPrefix(line, "; statefun:"))
				if len(fs) >= 1 {
					P.stateFuns[fs[0]] = fs[1:]
				}
			}
			if strings.HasPrefix(line, "; comp:") {
				fs := strings.SplitN(strings.TrimSpace(strings.TrimPrefix(line, "; comp:")), " ", 2)
				if len(fs) == 2 {
					P.stateFunSorts[fs[0]] = strings.TrimSpace(fs[1])
				}
			}
			if strings.HasPrefix(line, "; ghost:") {
				fs := strings.SplitN(strings.TrimSpace(strings.TrimPrefix(line, "; ghost:")), " ", 2)
				if len(fs) == 2 {
					if _, ok := P.ghostComps[fs[0]]; !ok {
						P.ghostOrd = append(P.ghostOrd, fs[0])
					}
					P.ghostComps[fs[0]] = strings.TrimSpace(fs[1])
				}
			}
		}
	}
	return nil
}

// usedModules: transitive closure of the modules in uses, dependency order.
func (P *Prog) usedModules(uses map[string]bool) []string {
	var order []string
	seen := map[string]bool{}
	var visit func(m string)
	visit = func(m string) {
		if seen[m] {
			return
		}
		seen[m] = true
		for _, d := range P.modDeps[m] {
			visit(d)
		}
		order = append(order, m)
	}
	ms := []string{}
	for m := range uses {
		ms = append(ms, m)
	}
	sort.Strings(ms)
	for _, m := range ms {
		visit(m)
	}
	return order
}

func (P *Prog) preludeText(uses map[string]bool) string {
	var order []string
	seen := map[string]bool{}
	var visit func(m string)
	visit = func(m string) {
		if seen[m] {
			return
		}
		seen[m] = true
		for _, d := range P.modDeps[m] {
			visit(d)
		}
		order = append(order, m)
	}
	ms := []string{}
	for m := range uses {
		ms = append(ms, m)
	}
	sort.Strings(ms)
	for _, m := range ms {
		visit(m)
	}
	var b strings.Builder
	for _, m := range order {
		if m == "base" {
			continue
		}
		txt, ok := P.preludeMods[m]
		if !ok {
			b.WriteString("; MISSING PRELUDE MODULE " + m + "\n(assert false_missing_module_" + smtSym(m) + ")\n")
			continue
		}
		b.WriteString("; ---- module " + m + " ----\n")
		b.WriteString(txt)
		b.WriteByte('\n')
	}
	return b.String()
}

func (P *Prog) ContractFor(f *ssa.Function) *Contract {
	if f == nil {
		return nil
	}
	return P.cs.ByKey[P.FnKey(f)]
}

// IfaceContract finds the contract of an interface method: key <pkgpath>.<Iface>.<Method>.
func (P *Prog) IfaceContract(recv types.Type, method *types.Func) *Contract {
	n, ok := recv.(*types.Named)
	if !ok {
		return nil
	}
	// method may be declared on an embedded interface
	cands := []string{}
	if n.Obj().Pkg() != nil {
		cands = append(cands, n.Obj().Pkg().Path()+"."+n.Obj().Name()+"."+method.Name())
	} else {
		cands = append(cands, n.Obj().Name()+"."+method.Name())
	}
	if it, ok := n.Underlying().(*types.Interface); ok {
		for i := 0; i < it.NumEmbeddeds(); i++ {
			if en, ok := it.EmbeddedType(i).(*types.Named); ok && en.Obj().Pkg() != nil {
				cands = append(cands, en.Obj().Pkg().Path()+"."+en.Obj().Name()+"."+method.Name())
			}
		}
	}
	for _, k := range cands {
		if c := P.cs.ByKey[k]; c != nil {
			return c
		}
	}
	return nil
}

// typeByName resolves "pkgname.Type" among the clover packages.
func (P *Prog) typeByName(name string) types.Type {
	i := strings.LastIndex(name, ".")
	if i < 0 {
		return nil
	}
	pn, tn := name[:i], name[i+1:]
	for _, p := range P.pkgs {
		if p.Pkg.Name() == pn || p.Pkg.Path() == pn {
			if o := p.Pkg.Scope().Lookup(tn); o != nil {
				if _, ok := o.(*types.TypeName); ok {
					return o.Type()
				}
			}
		}
	}
	return nil
}

// typeExpr parses the Go type expressions used in contracts: *T, []T, map[K]T, basic type names,
// interface{} and pkg.Name (package name or path).
func (P *Prog) typeExpr(s string) types.Type {
	switch {
	case strings.HasPrefix(s, "*"):
		if e := P.typeExpr(s[1:]); e != nil {
			return types.NewPointer(e)
		}
		return nil
	case strings.HasPrefix(s, "[]"):
		if e := P.typeExpr(s[2:]); e != nil {
			return types.NewSlice(e)
		}
		return nil
	case strings.HasPrefix(s, "map["):
		depth := 0
		for i := 3; i < len(s); i++ {
			if s[i] == '[' {
				depth++
			} else if s[i] == ']' {
				depth--
				if depth == 0 {
					k, v := P.typeExpr(s[4:i]), P.typeExpr(s[i+1:])
					if k != nil && v != nil {
						return types.NewMap(k, v)
					}
					return nil
				}
			}
		}
		return nil
	case s == "interface{}" || s == "any":
		return types.NewInterfaceType(nil, nil)
	}
	if o := types.Universe.Lookup(s); o != nil {
		if tn, ok := o.(*types.TypeName); ok {
			return tn.Type()
		}
	}
	return P.typeByName(s)
}

// scanFinalCaptures: a captured variable is "effectively final" when its cell is written once in the
// enclosing function (its initialisation, before the closure is made) and never by a closure. Loads of
// such a free variable always yield the value it had when the closure was created.
func (P *Prog) scanFinalCaptures() {
	P.finalFV = map[*ssa.FreeVar]bool{}
	for f := range ssautil.AllFunctions(P.prog) {
		if !P.isClover(f) {
			continue
		}
		for _, b := range f.Blocks {
			for _, in := range b.Instrs {
				mc, ok := in.(*ssa.MakeClosure)
				if !ok {
					continue
				}
				g := mc.Fn.(*ssa.Function)
				for i, bv := range mc.Bindings {
					al, ok := bv.(*ssa.Alloc)
					if !ok || i >= len(g.FreeVars) {
						// forwarded free variable of the parent: final iff the parent's is
						if pfv, ok := bv.(*ssa.FreeVar); ok && i < len(g.FreeVars) && P.finalFV[pfv] && !fvStored(g.FreeVars[i]) {
							P.finalFV[g.FreeVars[i]] = true
						}
						continue
					}
					stores := 0
					okUses := true
					for _, r := range *al.Referrers() {
						switch u := r.(type) {
						case *ssa.Store:
							if u.Addr == al {
								stores++
								if !u.Block().Dominates(mc.Block()) {
									okUses = false
								}
							} else {
								okUses = false
							}
						case *ssa.UnOp, *ssa.DebugRef:
						case *ssa.MakeClosure:
							// every closure capturing it must leave it alone
							gg := u.Fn.(*ssa.Function)
							for j, b2 := range u.Bindings {
								if b2 == al && j < len(gg.FreeVars) && fvStored(gg.FreeVars[j]) {
									okUses = false
								}
							}
						default:
							okUses = false
						}
					}
					if okUses && stores <= 1 {
						P.finalFV[g.FreeVars[i]] = true
					}
				}
			}
		}
	}
}

func fvStored(fv *ssa.FreeVar) bool {
	for _, r := range *fv.Referrers() {
		switch u := r.(type) {
		case *ssa.UnOp, *ssa.DebugRef:
		case *ssa.Store:
			if u.Addr == fv {
				return true
			}
			return true
		default:
			return true // address escapes further (e.g. nested closure): be conservative
		}
	}
	return false
}

// cloverIface: a non-empty interface type declared in one of the clover packages.
func (P *Prog) cloverIface(t types.Type) bool {
	n, ok := t.(*types.Named)
	if !ok || n.Obj().Pkg() == nil {
		return false
	}
	it, ok := n.Underlying().(*types.Interface)
	if !ok || it.NumMethods() == 0 {
		return false
	}
	return strings.HasPrefix(n.Obj().Pkg().Path(), modPath)
}

// uncheckedImplementers: callers through an interface rely on the contract of the interface method; that is only
// sound if every method of a clover type that can stand behind the interface is itself verified against that
// contract (declares `implements <Iface>.<method>`) or is explicitly trusted. Returns one line per method for which
// neither holds.
func (P *Prog) uncheckedImplementers(onlyUsed bool) []string {
	var out []string
	var keys []string
	for k, c := range P.cs.ByKey {
		if c.Iface {
			keys = append(keys, k)
		}
	}
	sort.Strings(keys)
	for _, k := range keys {
		g := P.cs.ByKey[k]
		if onlyUsed && !g.Used {
			continue
		}
		// key: <pkgpath>.<Iface>.<method>
		i := strings.LastIndex(k, ".")
		if i < 0 {
			continue
		}
		method := k[i+1:]
		j := strings.LastIndex(k[:i], ".")
		if j < 0 {
			continue
		}
		pkgPath, ifName := k[:j], k[j+1:i]
		var it *types.Interface
		var itNamed *types.Named
		for _, p := range P.pkgs {
			if p.Pkg.Path() != pkgPath {
				continue
			}
			if tn, ok := p.Pkg.Scope().Lookup(ifName).(*types.TypeName); ok {
				if n, ok := tn.Type().(*types.Named); ok {
					if u, ok := n.Underlying().(*types.Interface); ok {
						it, itNamed = u, n
					}
				}
			}
		}
		if it == nil {
			continue
		}
		for _, T := range P.implementers(it) {
			sel := P.prog.MethodSets.MethodSet(T).Lookup(itNamed.Obj().Pkg(), method)
			if sel == nil {
				sel = P.prog.MethodSets.MethodSet(T).Lookup(nil, method)
			}
			if sel == nil {
				continue
			}
			f := P.prog.MethodValue(sel)
			if f == nil || !P.isClover(f) {
				continue
			}
			// a pointer type whose value type already implements: the value method is the one to check
			fk := P.FnKey(f)
			if f.Synthetic != "" {
				// wrapper of a promoted / value method: find the declared method
				if obj, ok := sel.Obj().(*types.Func); ok {
					if df := P.prog.FuncValue(obj); df != nil {
						f, fk = df, P.FnKey(df)
					}
				}
			}
			c := P.cs.ByKey[fk]
			ok := false
			if c != nil {
				if c.Trusted {
					ok = true
				}
				for cur, n := c, 0; cur != nil && n < 6; n++ {
					if cur.Key == g.Key || cur.ImplKey == g.Key {
						ok = true
						break
					}
					if cur.ImplKey == "" {
						break
					}
					cur = P.cs.ByKey[cur.ImplKey]
				}
			}
			if !ok {
				line := fmt.Sprintf("%s stands behind %s but is not verified against it (no `implements %s.%s`)", fk, g.Key, ifName, method)
				dup := false
				for _, o := range out {
					dup = dup || o == line
				}
				if !dup {
					out = append(out, line)
				}
			}
		}
	}
	return out
}
