package main

import (
	"bytes"
	"context"
	"crypto/sha1"
	"fmt"
	"os"
	"os/exec"
	"path/filepath"
	"strings"
	"sync"
	"time"
)

type Result struct {
	O       *Oblig
	T       *Trans
	Verdict string // discharged, refuted, undischarged, cover-ok, cover-fail
	Solver  string
	TimeS   float64
	Model   string
	File    string
	Raw     string
	Tried   []string
	replayFails bool
	Candidate bool
}

type solverSpec struct {
	name string
	args func(file string, sec int) []string
}

var solvers = map[string]solverSpec{
	"z3-new": {"z3-new", func(f string, sec int) []string { return []string{fmt.Sprintf("-t:%d", sec*1000), fmt.Sprintf("-T:%d", sec+3), f} }},
	"z3":     {"z3", func(f string, sec int) []string { return []string{fmt.Sprintf("-t:%d", sec*1000), fmt.Sprintf("-T:%d", sec+3), f} }},
	"cvc5":   {"cvc5", func(f string, sec int) []string { return []string{fmt.Sprintf("--tlimit=%d", sec*1000), f} }},
}

func runSolver(ctx context.Context, name, file string, sec int) (verdict string, out string, dur float64) {
	sp := solvers[name]
	start := time.Now()
	cctx, cancel := context.WithTimeout(ctx, time.Duration(sec+5)*time.Second)
	defer cancel()
	cmd := exec.CommandContext(cctx, sp.name, sp.args(file, sec)...)
	var buf bytes.Buffer
	cmd.Stdout = &buf
	cmd.Stderr = &buf
	cmd.Run()
	dur = time.Since(start).Seconds()
	out = buf.String()
	first := strings.TrimSpace(strings.SplitN(out, "\n", 2)[0])
	switch first {
	case "unsat", "sat", "unknown":
		return first, out, dur
	case "timeout":
		return "timeout", out, dur
	}
	if strings.Contains(out, "timeout") || cctx.Err() != nil {
		return "timeout", out, dur
	}
	return "error", out, dur
}

type SolveOpts struct {
	OutDir   string
	Tier     string
	Workers  int
	QuickSec int
	FullSec  int
}

func fileFor(outDir, name string) string {
	s := smtSym(name)
	if len(s) > 150 {
		h := sha1.Sum([]byte(name))
		s = s[:150] + fmt.Sprintf("_%x", h[:4])
	}
	return filepath.Join(outDir, "smt", s+".smt2")
}

// needsStrings: queries using only string-theory profile go to cvc5 first.
func solveOne(o *Oblig, t *Trans, opt SolveOpts) *Result {
	r := &Result{O: o, T: t}
	q := t.Query(o)
	file := fileFor(opt.OutDir, o.Name)
	os.MkdirAll(filepath.Dir(file), 0o755)
	withModel := q
	os.WriteFile(file, []byte(withModel), 0o644)
	r.File = file
	want := "unsat"
	if o.Expect == "sat" {
		want = "sat"
	}
	finish := func(v, solver, out string, d float64) bool {
		r.Tried = append(r.Tried, fmt.Sprintf("%s:%s:%.2fs", solver, v, d))
		r.TimeS += d
		if v == want {
			r.Solver = solver
			if want == "unsat" {
				r.Verdict = "discharged"
			} else {
				r.Verdict = "cover-ok"
				r.Model = out
			}
			return true
		}
		if v == "sat" && want == "unsat" {
			r.Solver = solver
			r.Verdict = "refuted"
			r.Model = out
			return true
		}
		if v == "unsat" && want == "sat" {
			r.Solver = solver
			r.Verdict = "cover-fail"
			return true
		}
		if v == "error" {
			r.Raw = out
		}
		if v == "unknown" && strings.Contains(out, "((") {
			// candidate model of the ground part plus the quantifier instances made so far
			r.Model = out
			r.Candidate = true
		}
		return false
	}
	first := "z3-new"
	if t.uses["strtheory"] {
		first = "cvc5"
	}
	// Vacuity guards (covers) must see the quantified hypotheses: contradictory axioms or preconditions make the
	// FULL context unsatisfiable while the relaxed one stays satisfiable. The full query is tried first with a short
	// budget: "unsat" is a vacuity failure; "sat"/"unknown" falls through to the cheaper relaxed check below.
	if want == "sat" && o.Kind == "prelude" {
		sec := opt.QuickSec * 2
		v, _, d, who := raceSolvers([]string{"z3-new", "z3"}, file, sec)
		r.Tried = append(r.Tried, fmt.Sprintf("%s(full):%s:%.2fs", who, v, d))
		r.TimeS += d
		if v == "unsat" {
			r.Solver = who
			r.Verdict = "cover-fail"
			return r
		}
	}
	// Stage 0: the same query without its quantified hypotheses (prelude axioms, frame facts).
	// Fewer hypotheses: an unsat answer is still a proof; a sat answer is only a candidate
	// counterexample, confirmed by the full query below or by replay on the real code.
	if relaxed, dropped := relaxQuery(withModel); dropped > 0 {
		rfile := strings.TrimSuffix(file, ".smt2") + ".qf.smt2"
		os.WriteFile(rfile, []byte(relaxed), 0o644)
		v, out, d, first := raceSolvers([]string{"z3-new", "z3", "cvc5"}, rfile, opt.QuickSec)
		r.Tried = append(r.Tried, fmt.Sprintf("%s(qf):%s:%.2fs", first, v, d))
		r.TimeS += d
		if v == "unsat" && want == "unsat" {
			r.Solver = first
			r.Verdict = "discharged"
			return r
		}
		if v == "sat" && want == "sat" {
			r.Solver = first
			r.Verdict = "cover-ok"
			r.Model = out
			return r
		}
		if v == "sat" {
			r.Model = out
			r.Candidate = true
		}
	}
	v, out, d := runSolver(context.Background(), first, file, opt.QuickSec)
	if finish(v, first, out, d) {
		return r
	}
	if want == "sat" {
		// vacuity guards get the short budget only: an undecided cover is reported, not an alarm
		r.Verdict = "cover-unknown"
		return r
	}
	// race the remaining solvers (and the first one again with the full budget)
	type ans struct {
		v, solver, out string
		d              float64
	}
	ctx, cancel := context.WithCancel(context.Background())
	defer cancel()
	ch := make(chan ans, 3)
	names := []string{"z3", "cvc5", "z3-new"}
	for _, n := range names {
		n := n
		go func() {
			v, out, d := runSolver(ctx, n, file, opt.FullSec)
			ch <- ans{v, n, out, d}
		}()
	}
	var pending []ans
	for i := 0; i < len(names); i++ {
		a := <-ch
		if a.v == want || (a.v == "sat" && want == "unsat") || (a.v == "unsat" && want == "sat") {
			finish(a.v, a.solver, a.out, a.d)
			cancel()
			return r
		}
		pending = append(pending, a)
	}
	for _, a := range pending {
		finish(a.v, a.solver, a.out, 0)
		if a.d > r.TimeS {
			r.TimeS = a.d
		}
	}
	if want == "unsat" {
		r.Verdict = "undischarged"
		// Path splitting: the goal has the form (=> REACH G) and REACH is defined as a disjunction of edge
		// predicates (a merge point with many incoming paths). Proving G under each disjunct separately is
		// sound (REACH implies one of them) and much easier for the solvers than the case split.
		if n, ok := splitDischarge(withModel, file, opt, 0); ok {
			r.Verdict = "discharged"
			r.Solver = fmt.Sprintf("split(%d)", n)
			r.Tried = append(r.Tried, fmt.Sprintf("path-split:%d sub-queries unsat", n))
		} else if n, ok := caseDischarge(withModel, file, opt, t.splitTerms); ok {
			r.Verdict = "discharged"
			r.Solver = fmt.Sprintf("cases(%d)", n)
			r.Tried = append(r.Tried, fmt.Sprintf("case-split:%d sub-queries unsat", n))
		}
	} else {
		// no solver decided the cover within the time limit: not evidence of vacuity
		r.Verdict = "cover-unknown"
	}
	return r
}

// subSec: budget of one sub-query of a path / case split. Sub-queries are easier than the whole; a failing
// obligation should not cost (number of cases) x (full budget).
func (o SolveOpts) subSec() int {
	if o.Tier == "thorough" {
		return 120
	}
	return 25
}

// splitDischarge tries to prove a query of the form ... (assert (not (=> REACH G))) by cases over the disjuncts
// of REACH's definition. Returns the number of sub-queries proved and whether all of them were.
func splitDischarge(query, file string, opt SolveOpts, depth int) (int, bool) {
	i := strings.LastIndex(query, "(assert (not (=> ")
	if i < 0 {
		return 0, false
	}
	rest := query[i+len("(assert (not (=> "):]
	j := strings.IndexAny(rest, " )")
	if j <= 0 {
		return 0, false
	}
	sym := rest[:j]
	def := "(define-fun " + sym + " () Bool (or "
	k := strings.Index(query, def)
	if k < 0 {
		return 0, false
	}
	line := query[k+len(def):]
	if e := strings.Index(line, "\n"); e >= 0 {
		line = line[:e]
	}
	line = strings.TrimSuffix(strings.TrimSpace(line), "))")
	parts := strings.Fields(line)
	if len(parts) < 2 {
		return 0, false
	}
	for _, p := range parts {
		if strings.ContainsAny(p, "()") {
			return 0, false // only plain symbols
		}
	}
	total := 0
	for n, p := range parts {
		sub := query[:i] + "(assert " + p + ")\n" + query[i:]
		sfile := fmt.Sprintf("%s.split%d_%d.smt2", strings.TrimSuffix(file, ".smt2"), depth, n)
		os.WriteFile(sfile, []byte(sub), 0o644)
		v, _, _, _ := raceSolvers([]string{"z3-new", "z3", "cvc5"}, sfile, opt.subSec())
		if v == "unsat" {
			total++
			continue
		}
		if v == "sat" || depth >= 1 {
			return total, false
		}
		// the disjunct may itself be a merge point: one more level, on the definition of p
		inner := strings.Replace(sub, "(assert (not (=> "+sym+" ", "(assert (not (=> "+p+" ", 1)
		m, ok := splitDischarge(inner, sfile, opt, depth+1)
		if !ok {
			return total, false
		}
		total += m
	}
	return total, true
}

// caseDischarge proves a query by exhaustive case distinction over the Boolean hint terms of the contract
// ("extra split"): every sign combination is a sub-query; all must be unsat. Sound because the cases are exhaustive.
func caseDischarge(query, file string, opt SolveOpts, terms []string) (int, bool) {
	if len(terms) == 0 || len(terms) > 4 {
		return 0, false
	}
	i := strings.LastIndex(query, "(assert (not ")
	if i < 0 {
		return 0, false
	}
	total := 0
	for mask := 0; mask < 1<<len(terms); mask++ {
		var b strings.Builder
		for j, tm := range terms {
			if mask&(1<<j) != 0 {
				b.WriteString("(assert " + tm + ")\n")
			} else {
				b.WriteString("(assert (not " + tm + "))\n")
			}
		}
		sub := query[:i] + b.String() + query[i:]
		sfile := fmt.Sprintf("%s.case%d.smt2", strings.TrimSuffix(file, ".smt2"), mask)
		os.WriteFile(sfile, []byte(sub), 0o644)
		v, _, _, _ := raceSolvers([]string{"z3-new", "z3", "cvc5"}, sfile, opt.subSec())
		if v != "unsat" {
			// a merge point inside the case: path-split it
			if n, ok := splitDischarge(sub, sfile, opt, 0); v != "sat" && ok {
				total += n
				continue
			}
			return total, false
		}
		total++
	}
	return total, true
}

// raceSolvers runs the solvers concurrently and returns the first sat/unsat answer.
func raceSolvers(names []string, file string, sec int) (string, string, float64, string) {
	type ans struct {
		v, out, solver string
		d              float64
	}
	ctx, cancel := context.WithCancel(context.Background())
	defer cancel()
	ch := make(chan ans, len(names))
	for _, n := range names {
		n := n
		go func() {
			v, out, d := runSolver(ctx, n, file, sec)
			ch <- ans{v, out, n, d}
		}()
	}
	last := ans{"unknown", "", names[0], 0}
	for range names {
		a := <-ch
		if a.v == "sat" || a.v == "unsat" {
			return a.v, a.out, a.d, a.solver
		}
		if a.d >= last.d {
			last = a
		}
	}
	return last.v, last.out, last.d, last.solver
}

// relaxQuery drops every assertion that contains a quantifier, except the last one (the goal).
// Assertions may span several lines (prelude modules): the query is split into top-level forms first.
func relaxQuery(q string) (string, int) {
	forms := topLevelForms(q)
	lastAssert := -1
	for i, l := range forms {
		if strings.HasPrefix(l, "(assert") {
			lastAssert = i
		}
	}
	dropped := 0
	var b strings.Builder
	for i, l := range forms {
		if i != lastAssert && strings.HasPrefix(l, "(assert") && (strings.Contains(l, "(forall ") || strings.Contains(l, "(exists ")) {
			dropped++
			continue
		}
		b.WriteString(l)
		b.WriteByte('\n')
	}
	return b.String(), dropped
}

// topLevelForms splits SMT-LIB text into its top-level parenthesised forms; comments outside forms are kept as
// their own entries, comments inside a form are removed.
func topLevelForms(q string) []string {
	var out []string
	var cur strings.Builder
	depth := 0
	for _, line := range strings.Split(q, "\n") {
		inStr, inBar := false, false
		start := cur.Len()
		for i := 0; i < len(line); i++ {
			c := line[i]
			if inStr {
				if c == '"' {
					inStr = false
				}
				cur.WriteByte(c)
				continue
			}
			if inBar {
				if c == '|' {
					inBar = false
				}
				cur.WriteByte(c)
				continue
			}
			if c == ';' {
				if depth == 0 && cur.Len() == start {
					out = append(out, line)
				}
				break
			}
			switch c {
			case '"':
				inStr = true
			case '|':
				inBar = true
			case '(':
				depth++
			case ')':
				depth--
			}
			cur.WriteByte(c)
		}
		if depth == 0 {
			if t := strings.TrimSpace(cur.String()); t != "" {
				out = append(out, t)
			}
			cur.Reset()
		} else {
			cur.WriteByte(' ')
		}
	}
	if t := strings.TrimSpace(cur.String()); t != "" {
		out = append(out, t)
	}
	return out
}

func solveAll(items []*Result, opt SolveOpts) {
	var wg sync.WaitGroup
	ch := make(chan *Result)
	for w := 0; w < opt.Workers; w++ {
		wg.Add(1)
		go func() {
			defer wg.Done()
			for it := range ch {
				res := solveOne(it.O, it.T, opt)
				*it = *res
			}
		}()
	}
	for _, it := range items {
		ch <- it
	}
	close(ch)
	wg.Wait()
}
