package main

import (
	"fmt"
	"os"
	"path/filepath"
	"sort"
	"strconv"
	"strings"
)

// Clause is one requires / ensures / invariant / decreases clause.
type Clause struct {
	Kind  string // requires ensures invariant decreases
	Tags  []string
	Label string
	Expr  *Sx
	Src   string
}

type LoopSpec struct {
	Invariants []*Clause
	Decreases  *Clause
	Reveals    []*Sx // definitional instances of opaque spec functions assumed at the loop head
}

type GhostParam struct {
	Name string
	Sort *Sx
}

// Contract is the parsed contract block of one function (or interface method, or extern).
type Contract struct {
	Key      string // full key: <pkgpath>.<relname>
	PkgPath  string
	Name     string // relname as written
	Src      string
	Trusted  bool // assumed, body not verified (externals, out-of-subset functions)
	Inline   bool // force inlining at call sites (no contract use)
	NoInline bool
	Iface    bool // contract of an interface method
	Uses     []string
	Ghosts   []GhostParam
	Requires []*Clause
	Ensures  []*Clause
	Modifies []*Sx // list of location items; nil+HasModifies=false => derived (writes nothing pre-existing)
	HasMod   bool
	Decr     *Clause
	Loops    map[int]*LoopSpec
	Snapshots [][2]string
	Assumes  []*Clause
	ExitUpdates [][3]*Sx // ghost assignments at exit: comp[index] := value
	AssertBefore []*Clause // proved just before calls to a named callee (Label = callee|label)
	AssertStore  []*Clause // proved at every slice-element / map-entry store of the function (Label = slice|map | label)
	Maintains []*Clause // closure invariants over its captured cells (assumed at entry, proved at exit; carried across calls that receive the closure)
	Impl     string   // implements <iface method key>
	ImplKey  string   // resolved generic specification key
	NImportedReq int
	Tags     []string // tags for function-level obligations (safe, frame); default: union of clause tags
	Params   []string // for externs/ifaces: explicit parameter names
	Extra    map[string][]*Sx
	Used     bool
}

type Lemma struct {
	Name string
	Tags []string
	Uses []string
	Expr *Sx
	Src  string
	// Expect is "unsat" for a lemma proved by refutation of its negation (default)
	// or "sat" for a cover / consistency query.
	Expect string
}

type ContractSet struct {
	ByKey  map[string]*Contract
	Lemmas []*Lemma
	Files  []string
}

var clauseKeywords = map[string]bool{
	"func": true, "iface": true, "extern": true, "lemma": true, "cover": true,
	"use": true, "ghost": true, "requires": true, "ensures": true, "ensures-assumed": true, "maintains": true, "assert-before": true, "assert-store": true, "exit-update": true, "assumes": true, "snapshot": true, "modifies": true,
	"decreases": true, "loop": true, "trusted": true, "inline": true, "noinline": true,
	"implements": true, "tags": true, "params": true, "extra": true, "reveal": true, "reveal-post": true, "reveal-before": true, "assume-after": true,
}

func splitKwTags(tok string) (string, []string) {
	i := strings.IndexByte(tok, '[')
	if i < 0 || !strings.HasSuffix(tok, "]") {
		return tok, nil
	}
	kw := tok[:i]
	var tags []string
	for _, t := range strings.Split(tok[i+1:len(tok)-1], ",") {
		t = strings.TrimSpace(t)
		if t != "" {
			tags = append(tags, t)
		}
	}
	return kw, tags
}

// extractContractText pulls the text following "//@" markers out of a file.
// Only comment lines are considered; line numbers are kept by inserting newlines.
func extractContractText(src string) string {
	var b strings.Builder
	for _, line := range strings.Split(src, "\n") {
		t := strings.TrimSpace(line)
		if strings.HasPrefix(t, "//@") {
			b.WriteString(strings.TrimPrefix(t, "//@"))
		} else if strings.HasPrefix(t, "// @") { // gofmt rewriting
			b.WriteString(strings.TrimPrefix(t, "// @"))
		}
		b.WriteByte('\n')
	}
	return b.String()
}

type tokLine struct {
	tok  string
	line int
}

func tokenizeWithLines(text string) ([]tokLine, error) {
	var out []tokLine
	for ln, line := range strings.Split(text, "\n") {
		toks, err := tokenizeSx(line)
		if err != nil {
			return nil, fmt.Errorf("line %d: %v", ln+1, err)
		}
		for _, t := range toks {
			out = append(out, tokLine{t, ln + 1})
		}
	}
	return out, nil
}

func (cs *ContractSet) parseFile(path string, pkgPath string, raw bool) error {
	data, err := os.ReadFile(path)
	if err != nil {
		return err
	}
	text := string(data)
	if !raw {
		text = extractContractText(text)
	}
	tl, err := tokenizeWithLines(text)
	if err != nil {
		return fmt.Errorf("%s: %v", path, err)
	}
	toks := make([]string, len(tl))
	for i, t := range tl {
		toks[i] = t.tok
	}
	src := func(i int) string {
		if i < len(tl) {
			return fmt.Sprintf("%s:%d", filepath.Base(path), tl[i].line)
		}
		return filepath.Base(path)
	}
	var cur *Contract
	i := 0
	readSx := func() (*Sx, error) {
		x, n, err := parseOne(toks, i)
		if err != nil {
			return nil, fmt.Errorf("%s: %v", src(i), err)
		}
		i = n
		return x, nil
	}
	readLabel := func() string {
		if i < len(toks) && strings.HasSuffix(toks[i], ":") && toks[i] != ":" && !strings.HasPrefix(toks[i], "(") {
			l := strings.TrimSuffix(toks[i], ":")
			i++
			return l
		}
		return ""
	}
	for i < len(toks) {
		at := i
		kw, tags := splitKwTags(toks[i])
		if !clauseKeywords[kw] {
			return fmt.Errorf("%s: unexpected token %q (expected a clause keyword)", src(i), toks[i])
		}
		i++
		switch kw {
		case "func", "iface", "extern":
			if i >= len(toks) {
				return fmt.Errorf("%s: missing name", src(at))
			}
			name := toks[i]
			i++
			// names like "(*Range).IsEmpty" tokenise as "(" "*Range" ")" ".IsEmpty"
			if strings.HasSuffix(name, ".") && i < len(toks) && toks[i] == "(" {
				name += "("
				i++
				for i < len(toks) && toks[i] != ")" {
					name += toks[i]
					i++
				}
				name += ")"
				i++
				if i < len(toks) && strings.HasPrefix(toks[i], ".") {
					name += toks[i]
					i++
				}
			} else if name == "(" {
				name = "("
				for i < len(toks) && toks[i] != ")" {
					name += toks[i]
					i++
				}
				name += ")"
				i++
				if i < len(toks) && strings.HasPrefix(toks[i], ".") {
					name += toks[i]
					i++
				}
			}
			key := name
			pp := pkgPath
			if kw == "extern" || (kw == "iface" && strings.Contains(name, "/")) || pkgPath == "" {
				pp = ""
			} else {
				key = pkgPath + "." + name
			}
			if kw == "extern" || pkgPath == "" {
				key = name
			}
			cur = &Contract{Key: key, PkgPath: pp, Name: name, Src: src(at), Loops: map[int]*LoopSpec{}, Extra: map[string][]*Sx{}}
			if kw == "extern" {
				cur.Trusted = true
			}
			if kw == "iface" {
				cur.Iface = true
			}
			if _, dup := cs.ByKey[key]; dup {
				return fmt.Errorf("%s: duplicate contract for %s", src(at), key)
			}
			cs.ByKey[key] = cur
		case "lemma", "cover":
			if i >= len(toks) {
				return fmt.Errorf("%s: missing lemma name", src(at))
			}
			lm := &Lemma{Name: strings.TrimSuffix(toks[i], ":"), Tags: tags, Src: src(at), Expect: "unsat"}
			if kw == "cover" {
				lm.Expect = "sat"
			}
			i++
			for i < len(toks) && toks[i] == "use" {
				i++
				x, err := readSx()
				if err != nil {
					return err
				}
				lm.Uses = append(lm.Uses, sxAtoms(x)...)
			}
			x, err := readSx()
			if err != nil {
				return err
			}
			lm.Expr = x
			cs.Lemmas = append(cs.Lemmas, lm)
			cur = nil
		default:
			if cur == nil {
				return fmt.Errorf("%s: clause %q outside a func block", src(at), kw)
			}
			switch kw {
			case "use":
				x, err := readSx()
				if err != nil {
					return err
				}
				cur.Uses = append(cur.Uses, sxAtoms(x)...)
			case "ghost":
				if i >= len(toks) {
					return fmt.Errorf("%s: ghost needs a name", src(at))
				}
				name := toks[i]
				i++
				x, err := readSx()
				if err != nil {
					return err
				}
				cur.Ghosts = append(cur.Ghosts, GhostParam{name, x})
			case "requires", "ensures", "ensures-assumed":
				label := readLabel()
				x, err := readSx()
				if err != nil {
					return err
				}
				c := &Clause{Kind: kw, Tags: tags, Label: label, Expr: x, Src: src(at)}
				if kw == "requires" {
					cur.Requires = append(cur.Requires, c)
				} else {
					cur.Ensures = append(cur.Ensures, c)
				}
			case "snapshot":
				// snapshot <label> after <callee suffix>: names the state right after the (first) call to that callee; (at <label> e) evaluates e there
				label := toks[i]
				i++
				if i < len(toks) && toks[i] == "after" {
					i++
				}
				callee := toks[i]
				i++
				cur.Snapshots = append(cur.Snapshots, [2]string{label, callee})
			case "assumes":
				// assumed at entry of the body, NOT checked at call sites: an argument made outside the verifier (listed in the evidence)
				label := readLabel()
				x, err := readSx()
				if err != nil {
					return err
				}
				cur.Assumes = append(cur.Assumes, &Clause{Kind: kw, Tags: tags, Label: label, Expr: x, Src: src(at)})
			case "exit-update":
				// exit-update <ghost comp> <index expr> <value expr>: ghost assignment performed when the function returns
				comp := toks[i]
				i++
				ix, err := readSx()
				if err != nil {
					return err
				}
				vx, err := readSx()
				if err != nil {
					return err
				}
				cur.ExitUpdates = append(cur.ExitUpdates, [3]*Sx{A(comp), ix, vx})
			case "assert-before":
				// assert-before[tags] <callee suffix> label: expr  -- proved just before each call to that callee
				callee := toks[i]
				i++
				label := readLabel()
				x, err := readSx()
				if err != nil {
					return err
				}
				cur.AssertBefore = append(cur.AssertBefore, &Clause{Kind: kw, Tags: tags, Label: callee + "|" + label, Expr: x, Src: src(at)})
			case "assert-store":
				// assert-store[tags] <slice|map> label: expr  -- proved at every store of the function into a slice or
				// array element (slice) or map entry (map); $val is the stored value, $key the map key
				kind := toks[i]
				i++
				label := readLabel()
				x, err := readSx()
				if err != nil {
					return err
				}
				cur.AssertStore = append(cur.AssertStore, &Clause{Kind: kw, Tags: tags, Label: kind + "|" + label, Expr: x, Src: src(at)})
			case "maintains":
				label := readLabel()
				x, err := readSx()
				if err != nil {
					return err
				}
				cur.Maintains = append(cur.Maintains, &Clause{Kind: kw, Tags: tags, Label: label, Expr: x, Src: src(at)})
			case "modifies":
				x, err := readSx()
				if err != nil {
					return err
				}
				cur.HasMod = true
				if x.IsL {
					cur.Modifies = append(cur.Modifies, x.List...)
				} else if x.Atom != "nothing" {
					cur.Modifies = append(cur.Modifies, x)
				}
			case "decreases":
				x, err := readSx()
				if err != nil {
					return err
				}
				cur.Decr = &Clause{Kind: "decreases", Tags: tags, Expr: x, Src: src(at)}
			case "loop":
				if i+1 >= len(toks) {
					return fmt.Errorf("%s: loop needs an ordinal and a clause", src(at))
				}
				n, err := strconv.Atoi(toks[i])
				if err != nil {
					return fmt.Errorf("%s: bad loop ordinal %q", src(at), toks[i])
				}
				i++
				lkw, ltags := splitKwTags(toks[i])
				i++
				ls := cur.Loops[n]
				if ls == nil {
					ls = &LoopSpec{}
					cur.Loops[n] = ls
				}
				switch lkw {
				case "invariant":
					label := readLabel()
					x, err := readSx()
					if err != nil {
						return err
					}
					ls.Invariants = append(ls.Invariants, &Clause{Kind: "invariant", Tags: ltags, Label: label, Expr: x, Src: src(at)})
				case "reveal":
					x, err := readSx()
					if err != nil {
						return err
					}
					ls.Reveals = append(ls.Reveals, x)
				case "decreases":
					x, err := readSx()
					if err != nil {
						return err
					}
					ls.Decreases = &Clause{Kind: "decreases", Tags: ltags, Expr: x, Src: src(at)}
				default:
					return fmt.Errorf("%s: unknown loop clause %q", src(at), lkw)
				}
			case "reveal", "reveal-post":
				// reveal: definitional instance assumed at entry; reveal-post: at the return, in the final state
				x, err := readSx()
				if err != nil {
					return err
				}
				cur.Extra[kw] = append(cur.Extra[kw], x)
			case "assume-after":
				callee := toks[i]
				i++
				label := readLabel()
				x, err := readSx()
				if err != nil {
					return err
				}
				cur.Extra[kw] = append(cur.Extra[kw], &Sx{IsL: true, List: []*Sx{{Atom: callee}, {Atom: label}, x}})
			case "reveal-before":
				callee := toks[i]
				i++
				x, err := readSx()
				if err != nil {
					return err
				}
				cur.Extra[kw] = append(cur.Extra[kw], &Sx{IsL: true, List: []*Sx{{Atom: callee}, x}})
			case "trusted":
				cur.Trusted = true
			case "inline":
				cur.Inline = true
			case "noinline":
				cur.NoInline = true
			case "implements":
				cur.Impl = toks[i]
				i++
			case "tags":
				x, err := readSx()
				if err != nil {
					return err
				}
				cur.Tags = append(cur.Tags, sxAtoms(x)...)
			case "params":
				x, err := readSx()
				if err != nil {
					return err
				}
				cur.Params = sxAtoms(x)
			case "extra":
				name := toks[i]
				i++
				x, err := readSx()
				if err != nil {
					return err
				}
				cur.Extra[name] = append(cur.Extra[name], x)
			}
		}
	}
	cs.Files = append(cs.Files, path)
	return nil
}

func sxAtoms(x *Sx) []string {
	if x.IsAtom() {
		return []string{x.Atom}
	}
	var out []string
	for _, y := range x.List {
		out = append(out, sxAtoms(y)...)
	}
	return out
}

func (c *Contract) AllTags() []string {
	set := map[string]bool{}
	for _, t := range c.Tags {
		set[t] = true
	}
	add := func(cl *Clause) {
		if cl == nil {
			return
		}
		for _, t := range cl.Tags {
			set[t] = true
		}
	}
	for _, cl := range c.Ensures {
		add(cl)
	}
	for _, cl := range c.Requires {
		add(cl)
	}
	for _, cl := range c.AssertBefore {
		add(cl)
	}
	for _, cl := range c.AssertStore {
		add(cl)
	}
	for _, cl := range c.Maintains {
		add(cl)
	}
	for _, ls := range c.Loops {
		for _, cl := range ls.Invariants {
			add(cl)
		}
		add(ls.Decreases)
	}
	var out []string
	for t := range set {
		out = append(out, t)
	}
	sort.Strings(out)
	return out
}
