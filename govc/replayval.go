package main

import (
	"bytes"
	"encoding/json"
	"fmt"
	"math/big"
	"os"
	"os/exec"
	"path/filepath"
	"strings"
	"time"
)

// Value replays: translate the solver's counterexample into Go values, run the real function
// through an in-package test injected with -overlay, and evaluate the violated clause with a
// reference implementation of the specification.

type replayFamily struct {
	pkgDir   string // relative to /repo
	testFile string // under /verif/replay
	testName string
	build    func(r *Result, vals map[string]string) (interface{}, bool)
}

func bvToBig(s string) (*big.Int, bool) {
	s = strings.TrimSpace(s)
	n := new(big.Int)
	if strings.HasPrefix(s, "#x") {
		_, ok := n.SetString(s[2:], 16)
		return n, ok
	}
	if strings.HasPrefix(s, "#b") {
		_, ok := n.SetString(s[2:], 2)
		return n, ok
	}
	return nil, false
}

// valToJSON converts a model value of sort Val into the JSON the replay tests read.
func valToJSON(term string, extra map[string]string, name string) (map[string]string, bool) {
	x, err := parseSx(term)
	if err != nil {
		return nil, false
	}
	if x.IsAtom() {
		if x.Atom == "vnil" {
			return map[string]string{"t": "nil"}, true
		}
		return nil, false
	}
	switch x.Head() {
	case "vint":
		ty := x.List[1].Atom
		bits, ok := bvToBig(x.List[2].String())
		if !ok {
			return nil, false
		}
		switch ty {
		case "5": // int64
			if bits.Bit(63) == 1 {
				bits.Sub(bits, new(big.Int).Lsh(big.NewInt(1), 64))
			}
			return map[string]string{"t": "int64", "v": bits.String()}, true
		case "10":
			return map[string]string{"t": "uint64", "v": bits.String()}, true
		}
	case "vflt":
		f := x.List[2]
		if f.Head() == "fp" && len(f.List) == 4 {
			s, _ := bvToBig(f.List[1].String())
			e, _ := bvToBig(f.List[2].String())
			m, _ := bvToBig(f.List[3].String())
			if s != nil && e != nil && m != nil {
				v := new(big.Int).Lsh(s, 63)
				v.Or(v, new(big.Int).Lsh(e, 52))
				v.Or(v, m)
				return map[string]string{"t": "float64", "bits": "0x" + v.Text(16)}, true
			}
		}
		if f.Head() == "_" && len(f.List) >= 2 {
			switch f.List[1].Atom {
			case "+zero":
				return map[string]string{"t": "float64", "bits": "0x0"}, true
			case "-zero":
				return map[string]string{"t": "float64", "bits": "0x8000000000000000"}, true
			case "+oo":
				return map[string]string{"t": "float64", "bits": "0x7ff0000000000000"}, true
			case "-oo":
				return map[string]string{"t": "float64", "bits": "0xfff0000000000000"}, true
			}
		}
	case "vstr":
		return map[string]string{"t": "string", "v": "s" + smtSym(x.List[2].String())}, true
	case "vbool":
		return map[string]string{"t": "bool", "v": x.List[2].Atom}, true
	case "vtime":
		if ns, ok := extra["(unixNano (tval "+name+"))"]; ok {
			if n, ok := bvToBig(ns); ok {
				if n.Bit(63) == 1 {
					n.Sub(n, new(big.Int).Lsh(big.NewInt(1), 64))
				}
				return map[string]string{"t": "time", "v": n.String()}, true
			}
		}
	}
	return nil, false
}

var replayFamilies = map[string]*replayFamily{}

func init() {
	cmp := &replayFamily{pkgDir: "internal", testFile: "internal_replay_test.go", testName: "TestVerifReplayCompare",
		build: func(r *Result, vals map[string]string) (interface{}, bool) {
			a, ok1 := valToJSON(vals["p!v1"], vals, "p!v1")
			b, ok2 := valToJSON(vals["p!v2"], vals, "p!v2")
			if !ok1 || !ok2 {
				return nil, false
			}
			return [][2]map[string]string{{a, b}}, true
		}}
	replayFamilies[modPath+".(*sortNode).Finish"] = &replayFamily{pkgDir: ".", testFile: "clover_replay_test.go", testName: "TestVerifReplaySortFinish",
		build: func(r *Result, vals map[string]string) (interface{}, bool) { return "fixed scenario", true }}
	replayFamilies[modPath+".(*DB).replaceDocs$1"] = &replayFamily{pkgDir: ".", testFile: "clover_replay_test.go", testName: "TestVerifReplayBulkUnderCursor",
		build: func(r *Result, vals map[string]string) (interface{}, bool) { return "fixed scenario", true }}
	replayFamilies[modPath+".(*DB).ListIndexes"] = &replayFamily{pkgDir: ".", testFile: "clover_replay_test.go", testName: "TestVerifReplayListIndexesMissing",
		build: func(r *Result, vals map[string]string) (interface{}, bool) { return "fixed scenario", true }}
	lit := &replayFamily{pkgDir: "query", testFile: "query_replay_test.go", testName: "TestVerifReplayLiteralKinds",
		build: func(r *Result, vals map[string]string) (interface{}, bool) { return "fixed scenario", true }}
	replayFamilies[modPath+"/query.(*UnaryCriteria).eq"] = lit
	replayFamilies[modPath+"/query.(*UnaryCriteria).in"] = lit
	replayFamilies[modPath+"/query.(*UnaryCriteria).contains"] = lit
	scenario := func(key, pkgDir, testFile, testName string) {
		replayFamilies[modPath+key] = &replayFamily{pkgDir: pkgDir, testFile: testFile, testName: testName,
			build: func(r *Result, vals map[string]string) (interface{}, bool) { return "fixed scenario", true }}
	}
	// keys may name one obligation ("<function>#<obligation substring>"): looked up before the function key
	scenario(".(*DB).UpdateById#key-is-id", ".", "clover_replay_test.go", "TestVerifReplayUpdateRewritesId")
	scenario(".(*DB).replaceDocs#key-is-id", ".", "clover_replay_test.go", "TestVerifReplayUpdateRewritesId")
	scenario(".(*IndexSelectVisitor).VisitNotCriteria#post.select", ".", "clover_replay_test.go", "TestVerifReplayPlannerNot")
	scenario(".(*FieldRangeVisitor).VisitBinaryCriteria#post.ranges", ".", "clover_replay_test.go", "TestVerifReplayPlannerOr")
	scenario(".(*FieldRangeVisitor).VisitNotCriteria#post.ranges", ".", "clover_replay_test.go", "TestVerifReplayPlannerDoubleNot")
	scenario(".unaryCriteriaToRange#post.cover", ".", "clover_replay_test.go", "TestVerifReplayPlannerFieldOperand")
	scenario(".(*DB).IterateDocs#iterateDocs.norm", ".", "clover_replay_test.go", "TestVerifReplayIterateDocsRaw")
	scenario("/store/bbolt.(*boltCursor).Seek", "store/bbolt", "bbolt_replay_test.go", "TestVerifReplayBoltCursor")
	scenario("/store/bbolt.(*boltCursor).Valid", "store/bbolt", "bbolt_replay_test.go", "TestVerifReplayBoltCursor")
	scenario("/store/bbolt.(*boltCursor).Next", "store/bbolt", "bbolt_replay_test.go", "TestVerifReplayBoltCursor")
	scenario("/index.(*rangeIndex).keys#in-index", ".", "clover_replay_test.go", "TestVerifReplayIndexPrefix")
	scenario("/index.(*rangeIndex).IterateRange#covers-", ".", "clover_replay_test.go", "TestVerifReplayReverseScan")
	scenario("/internal.removeLocalizedTimes", "internal", "internal_replay_test.go", "TestVerifReplayTimeInArray")
	scenario(".(*CriteriaNormalizeVisitor).VisitUnaryCriteria#no-field-operand", ".", "clover_replay_test.go", "TestVerifReplayInFieldOperand")
	scenario(".(*DB).DeleteById#size-accounts", ".", "clover_replay_test.go", "TestVerifReplayDeleteAbsent")
	imp := &replayFamily{pkgDir: ".", testFile: "clover_replay_test.go", testName: "TestVerifReplayImport",
		build: func(r *Result, vals map[string]string) (interface{}, bool) { return "fixed scenario", true }}
	replayFamilies[modPath+".(*DB).ImportCollection"] = imp
	replayFamilies[modPath+".(*DB).CreateCollectionByQuery"] = imp
	replayFamilies[modPath+"/internal.compareNumbers"] = cmp
	replayFamilies[modPath+"/internal.Compare"] = cmp
	rangeOf := func(vals map[string]string, p string) (map[string]interface{}, bool) {
		s, ok1 := valToJSON(vals["(select F_index_Range_Start@0 "+p+")"], vals, "")
		e, ok2 := valToJSON(vals["(select F_index_Range_End@0 "+p+")"], vals, "")
		if !ok1 || !ok2 {
			return nil, false
		}
		return map[string]interface{}{"Start": s, "End": e,
			"SI": vals["(select F_index_Range_StartIncluded@0 "+p+")"] == "true",
			"EI": vals["(select F_index_Range_EndIncluded@0 "+p+")"] == "true"}, true
	}
	replayFamilies[modPath+"/index.(*Range).IsEmpty"] = &replayFamily{pkgDir: "index", testFile: "index_replay_test.go", testName: "TestVerifReplayRange",
		build: func(r *Result, vals map[string]string) (interface{}, bool) {
			rg, ok := rangeOf(vals, "p!r")
			v, ok2 := valToJSON(vals["g!v"], vals, "g!v")
			if !ok || !ok2 {
				return nil, false
			}
			return []map[string]interface{}{{"Op": "isempty", "R": rg, "V": v}}, true
		}}
	replayFamilies[modPath+"/index.(*Range).Intersect"] = &replayFamily{pkgDir: "index", testFile: "index_replay_test.go", testName: "TestVerifReplayRange",
		build: func(r *Result, vals map[string]string) (interface{}, bool) {
			rg, ok := rangeOf(vals, "p!r")
			rg2, ok3 := rangeOf(vals, "p!r2")
			v, ok2 := valToJSON(vals["g!v"], vals, "g!v")
			if !ok || !ok2 || !ok3 {
				return nil, false
			}
			return []map[string]interface{}{{"Op": "intersect", "R": rg, "R2": rg2, "V": v}}, true
		}}
}

// parseGetValue reads the answer of (get-value (t1 t2 ...)): ((t1 v1) (t2 v2) ...).
func parseGetValue(out string) map[string]string {
	res := map[string]string{}
	i := strings.Index(out, "((")
	if i < 0 {
		return res
	}
	sx, err := parseAllSx(out[i:])
	if err != nil || len(sx) == 0 {
		return res
	}
	for _, p := range sx[0].List {
		if p.IsL && len(p.List) == 2 {
			res[p.List[0].String()] = p.List[1].String()
		}
	}
	return res
}

func runValueReplay(P *Prog, r *Result) (out string, failed bool, ran bool) {
	fam := replayFamilies[r.O.Fn]
	for k, f := range replayFamilies {
		if i := strings.Index(k, "#"); i > 0 && k[:i] == r.O.Fn && strings.Contains(r.O.Name, k[i+1:]) {
			fam = f
		}
	}
	if fam == nil {
		return "", false, false
	}
	vals := parseGetValue(r.Model)
	input, ok := fam.build(r, vals)
	if !ok {
		return "the model's values could not be translated into Go values of the supported replay domain", false, false
	}
	tmp, err := os.MkdirTemp("", "govc-replay")
	if err != nil {
		return err.Error(), false, false
	}
	defer os.RemoveAll(tmp)
	data, _ := json.Marshal(input)
	inFile := filepath.Join(tmp, "input.json")
	os.WriteFile(inFile, data, 0o644)
	tmpl, _ := os.ReadFile(filepath.Join(P.VerifDir, "replay", "refspec_test.go.tmpl"))
	pkgName := filepath.Base(fam.pkgDir)
	if fam.pkgDir == "." {
		pkgName = "clover"
	}
	refFile := filepath.Join(tmp, "refspec_test.go")
	os.WriteFile(refFile, []byte(strings.Replace(string(tmpl), "PKGNAME", pkgName, 1)), 0o644)
	ov := map[string]map[string]string{"Replace": {
		filepath.Join(P.RepoDir, fam.pkgDir, "zz_verif_replay_test.go"):  filepath.Join(P.VerifDir, "replay", fam.testFile),
		filepath.Join(P.RepoDir, fam.pkgDir, "zz_verif_refspec_test.go"): refFile}}
	ovData, _ := json.Marshal(ov)
	ovFile := filepath.Join(tmp, "overlay.json")
	os.WriteFile(ovFile, ovData, 0o644)
	cmd := exec.Command("go", "test", "-overlay", ovFile, "-vet=off", "-count=1", "-timeout", "60s", "-run", "^"+fam.testName+"$", "./"+fam.pkgDir)
	cmd.Dir = P.RepoDir
	cmd.Env = append(goEnv(), "VERIF_REPLAY_INPUT="+inFile)
	var buf bytes.Buffer
	cmd.Stdout, cmd.Stderr = &buf, &buf
	done := make(chan error, 1)
	go func() { done <- cmd.Run() }()
	select {
	case <-done:
	case <-time.After(180 * time.Second):
		cmd.Process.Kill()
	}
	o := buf.String()
	var keep []string
	for _, l := range strings.Split(o, "\n") {
		if strings.HasPrefix(l, "REPLAY ") {
			keep = append(keep, l)
		}
	}
	failed = strings.Contains(o, "REPLAY FAIL")
	if len(keep) == 0 {
		if len(o) > 1500 {
			o = o[:1500]
		}
		return fmt.Sprintf("input: %s\nthe replay test did not run:\n%s", data, o), false, true
	}
	return fmt.Sprintf("input: %s\n%s", data, strings.Join(keep, "\n")), failed, true
}
