package main

import (
	"fmt"
	"go/token"
	"go/types"
	"strings"

	"golang.org/x/tools/go/ssa"
)

// Higher-order code (DESIGN.md section 2.5). A parameter or struct field of function type has a
// callback contract (key "<function key>@<param>" or "<pkg>.<Type>.<field>"): its requires is what
// the caller of the function value guarantees at each invocation, its ensures/modifies what it
// assumes. Whoever provides a function value for that role must satisfy the contract:
//   - a closure of the repository carries "implements <generic spec>" (its body is verified against
//     the generic ensures/modifies) and its additional requires are proved here, at the site where it
//     is passed, for every state the callback contract allows (obligation cb-pre);
//   - a function parameter forwarded to a callee must itself come with a callback contract that
//     implements the same generic spec.

func (P *Prog) cbParam(fkey, pname string) *Contract { return P.cs.ByKey[fkey+"@"+pname] }

func (P *Prog) cbField(styp types.Type, i int) *Contract {
	n, ok := styp.(*types.Named)
	if !ok || n.Obj().Pkg() == nil {
		return nil
	}
	st := n.Underlying().(*types.Struct)
	return P.cs.ByKey[n.Obj().Pkg().Path()+"."+n.Obj().Name()+"."+st.Field(i).Name()]
}

func (t *Trans) freshState(base State, hint string) State {
	st := State{map[string]string{}}
	for _, c := range t.env.compOrd {
		if strings.HasPrefix(c, "IT_") {
			continue
		}
		n := t.freshConst(t.env.comps[c], c+"@"+hint)
		st.m[c] = n
	}
	for _, g := range t.P.ghostOrd {
		t.env.Comp(g, t.P.ghostComps[g])
		st.m[g] = t.freshConst(t.P.ghostComps[g], g+"@"+hint)
	}
	return st
}

func sameSpec(a, b *Contract) bool {
	ka, kb := a.ImplKey, b.ImplKey
	if ka == "" {
		ka = a.Key
	}
	if kb == "" {
		kb = b.Key
	}
	return ka == kb
}

// cbRefine emits the obligations that the function value av satisfies callback contract cb.
func (t *Trans) cbRefine(fr *Frame, cb *Contract, av ssa.Value, label string, pos token.Pos) {
	tags := append([]string{"C20"}, fr.tags...)
	fail := func(why string) {
		t.oblige("cb-pre", fmt.Sprintf("%s#cb-pre.%s", fr.path, label), tags, fr.curReach, "false", pos, why)
	}
	for _, u := range cb.Uses {
		t.uses[u] = true
	}
	// provider
	for {
		if ct, ok := av.(*ssa.ChangeType); ok {
			av = ct.X
			continue
		}
		break
	}
	var g *ssa.Function
	var binds []string
	if ci, ok := fr.closures[av]; ok {
		g, binds = ci.fn, ci.bindings
	} else if f, ok := av.(*ssa.Function); ok {
		g = f
	}
	sig, _ := av.Type().Underlying().(*types.Signature)
	if sig == nil {
		fail("callback argument is not a function value")
		return
	}
	mkCtx := func(S State, old State, c *Contract) (*SpecCtx, []string) {
		sc := &SpecCtx{t: t, st: S, old: old, names: map[string]specVal{}, callerFr: fr}
		sc.names["self"] = specVal{fr.val(av), nil}
		names, ptypes := sigNames(sig, c)
		var consts []string
		for i, n := range names {
			k := t.freshConst(t.env.SortOf(ptypes[i]), "cbarg_"+n)
			consts = append(consts, k)
			sc.names[n] = specVal{k, ptypes[i]}
		}
		return sc, consts
	}
	if g != nil {
		G := t.P.ContractFor(g)
		if G == nil {
			fail("a closure without contract is passed where callback contract " + cb.Key + " is expected")
			return
		}
		if !sameSpec(G, cb) {
			fail(fmt.Sprintf("closure %s implements %q, callback contract %s expects %q", shortKey(G.Key), G.ImplKey, cb.Key, cb.ImplKey))
			return
		}
		for _, u := range G.Uses {
			t.uses[u] = true
		}
		extra := G.Requires[G.NImportedReq:]
		if len(extra) == 0 {
			return
		}
		S := t.freshState(fr.st, "cb")
		cbSc, consts := mkCtx(S, fr.st, cb)
		var hyps []string
		hyps = append(hyps, fmt.Sprintf("(>= %s %s)", S.get("alloc"), fr.st.get("alloc")))
		for _, r := range cb.Requires {
			hyps = append(hyps, cbSc.expandBool(r.Expr))
		}
		gSc := &SpecCtx{t: t, st: S, old: S, names: map[string]specVal{}, callerFr: fr}
		gSc.names["self"] = specVal{fr.val(av), nil}
		for i, p := range g.Params {
			if i < len(consts) {
				gSc.names[p.Name()] = specVal{consts[i], p.Type()}
			}
		}
		for i, fv := range g.FreeVars {
			if i >= len(binds) {
				break
			}
			if pt, ok := fv.Type().(*types.Pointer); ok {
				if ci, ok := fr.closures[av]; ok && ci.finals[i] != "" {
					gSc.names[fv.Name()] = specVal{ci.finals[i], pt.Elem()}
					continue
				}
				gSc.names[fv.Name()] = specVal{t.loadFrom(nil, nil, binds[i], pt.Elem(), S), pt.Elem()}
			} else {
				gSc.names[fv.Name()] = specVal{binds[i], fv.Type()}
			}
		}
		for _, r := range extra {
			goal := fmt.Sprintf("(=> %s %s)", andTerms(hyps...), gSc.expandBool(r.Expr))
			t.oblige("cb-pre", fmt.Sprintf("%s#cb-pre.%s.%s", fr.path, label, labelOr(r.Label, "req")), tags, fr.curReach, goal, pos,
				"the closure's precondition holds whenever "+cb.Key+" allows it to be called")
		}
		return
	}
	if p, ok := av.(*ssa.Parameter); ok && fr.top && fr.contract != nil {
		pc := t.P.cbParam(fr.contract.Key, p.Name())
		if pc == nil {
			fail("function parameter " + p.Name() + " has no callback contract but is forwarded as " + cb.Key)
			return
		}
		if !sameSpec(pc, cb) {
			fail(fmt.Sprintf("parameter %s implements %q, callback contract %s expects %q", p.Name(), pc.ImplKey, cb.Key, cb.ImplKey))
			return
		}
		extra := pc.Requires[pc.NImportedReq:]
		if len(extra) == 0 {
			return
		}
		S := t.freshState(fr.st, "cb")
		cbSc, consts := mkCtx(S, fr.st, cb)
		var hyps []string
		for _, r := range cb.Requires {
			hyps = append(hyps, cbSc.expandBool(r.Expr))
		}
		pSc := &SpecCtx{t: t, st: S, old: fr.entrySt, names: map[string]specVal{}, callerFr: fr}
		names, ptypes := sigNames(sig, pc)
		for i, n := range names {
			if i < len(consts) {
				pSc.names[n] = specVal{consts[i], ptypes[i]}
			}
		}
		for _, r := range extra {
			goal := fmt.Sprintf("(=> %s %s)", andTerms(hyps...), pSc.expandBool(r.Expr))
			t.oblige("cb-pre", fmt.Sprintf("%s#cb-pre.%s.%s", fr.path, label, labelOr(r.Label, "req")), tags, fr.curReach, goal, pos,
				"what this function promises its own caller's callback still holds when the callee invokes it")
		}
		return
	}
	fail("cannot determine which function is passed as callback " + cb.Key)
}

// checkCallbackArgs: at a call of a function under contract, every function-typed argument must
// satisfy the callback contract of the corresponding parameter.
func (t *Trans) checkCallbackArgs(fr *Frame, calleeKey, cname string, names []string, ptypes []types.Type, argVals []ssa.Value, pos token.Pos) []func(State) string {
	var pending []func(State) string
	defer func() { t.pendingMaintains = pending }()
	for i, pt := range ptypes {
		if i >= len(argVals) || argVals[i] == nil {
			continue
		}
		if _, isFn := pt.Underlying().(*types.Signature); !isFn {
			continue
		}
		if c, isConst := argVals[i].(*ssa.Const); isConst && c.Value == nil {
			continue
		}
		cb := t.P.cbParam(calleeKey, names[i])
		if cb == nil {
			continue
		}
		t.cbRefine(fr, cb, argVals[i], cname+"."+names[i], pos)
		// closure invariants: hold now, and still hold when the callee returns (only the closure
		// itself can reach the cells it captured)
		if ci, ok := fr.closures[argVals[i]]; ok {
			if G := t.P.ContractFor(ci.fn); G != nil {
				for _, m := range G.Maintains {
					m := m
					ci := ci
					eval := func(st State) string {
						sc := &SpecCtx{t: t, st: st, old: st, names: map[string]specVal{}, callerFr: fr}
						for k, fv := range ci.fn.FreeVars {
							if k >= len(ci.bindings) {
								break
							}
							if pt, ok := fv.Type().(*types.Pointer); ok {
								if v := ci.finals[k]; v != "" {
									sc.names[fv.Name()] = specVal{v, pt.Elem()}
								} else {
									sc.names[fv.Name()] = specVal{t.loadFrom(nil, nil, ci.bindings[k], pt.Elem(), st), pt.Elem()}
								}
							}
						}
						return sc.expandBool(m.Expr)
					}
					t.oblige("cb-pre", fmt.Sprintf("%s#cb-pre.%s.%s.maintains.%s", fr.path, cname, names[i], labelOr(m.Label, "inv")), append([]string{"C20"}, fr.tags...), fr.curReach, eval(fr.st), pos, "closure invariant holds when the closure is handed over")
					pending = append(pending, eval)
				}
			}
		}
	}
	return pending
}
