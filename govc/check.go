package main

import (
	"encoding/json"
	"fmt"
	"os"
	"path/filepath"
	"regexp"
	"runtime"
	"sort"
	"strings"
	"time"
)

type CheckOpts struct {
	Prop, Tier, FnFilter, ObFilter, OutDir, Evidence string
	Verbose, NoBaseline, UpdateBaseline             bool
}

type KnownFinding struct {
	Property   string `json:"property"`
	Obligation string `json:"obligation"`
	What       string `json:"what"`
}

type KnownFile struct {
	Findings []KnownFinding `json:"findings"`
	Fixed    []string       `json:"fixed"`
}

type Unclaimed struct {
	Pattern string `json:"pattern"`
	Reason  string `json:"reason"`
}

func hasTag(tags []string, p string) bool {
	for _, t := range tags {
		if t == p {
			return true
		}
	}
	return false
}

func loadJSON(path string, v interface{}) {
	data, err := os.ReadFile(path)
	if err != nil {
		return
	}
	if err := json.Unmarshal(data, v); err != nil {
		fmt.Fprintf(os.Stderr, "govc: %s: %v\n", path, err)
	}
}

func seedEnv() int {
	var s int
	fmt.Sscanf(os.Getenv("VERIF_SEED"), "%d", &s)
	return s
}

// loadFailure: the tree does not load (does not compile with the contracts, or a contract file is broken).
// This is reported as a violation of the property being checked: its obligations cannot be generated.
func loadFailure(verif, prop, tier, evidence string, err error) {
	rp := filepath.Join(verif, "out", "replay", prop, "load-failure.txt")
	os.MkdirAll(filepath.Dir(rp), 0o755)
	os.WriteFile(rp, []byte("obligation: load\nThe repository (with -tags verif) or its contract files failed to load, so no obligation of "+prop+" could be generated.\n\n"+err.Error()+"\n"), 0o644)
	fmt.Printf("VIOLATION property=%s replay=%s no-failing-input-found\n", prop, rp)
	if evidence != "" {
		ev := map[string]interface{}{
			"property_id": prop, "tier": tier, "seed": seedEnv(), "level": "other",
			"coverage":   map[string]interface{}{"explanation": "load failure: " + err.Error(), "obligations": 0, "discharged": 0},
			"wall_s":     0.0,
			"violations": 1,
		}
		data, _ := json.MarshalIndent(ev, "", " ")
		os.MkdirAll(filepath.Dir(evidence), 0o755)
		os.WriteFile(evidence, data, 0o644)
	}
	os.Exit(1)
}

func runCheck(P *Prog, opt CheckOpts) int {
	start := processStart
	prop := opt.Prop
	var known KnownFile
	loadJSON(filepath.Join(P.VerifDir, "known_findings.json"), &known)
	var deferredToThorough []string
	var unclaimed []Unclaimed
	loadJSON(filepath.Join(P.VerifDir, "unclaimed.json"), &unclaimed)
	var unclRe []*regexp.Regexp
	for _, u := range unclaimed {
		unclRe = append(unclRe, regexp.MustCompile(u.Pattern))
	}
	isUnclaimed := func(name string) bool {
		for _, re := range unclRe {
			if re.MatchString(name) {
				return true
			}
		}
		return false
	}
	knownBy := map[string]KnownFinding{}
	for _, k := range known.Findings {
		if k.Property == prop || prop == "all" {
			knownBy[k.Obligation] = k
		}
	}

	var keys []string
	for k := range P.cs.ByKey {
		keys = append(keys, k)
	}
	sort.Strings(keys)
	var items []*Result
	var transErrs []string
	funcsUnder := map[string]bool{}
	trusted := map[string]bool{}
	notes := map[string]bool{}
	nGenerated := 0
	for _, k := range keys {
		c := P.cs.ByKey[k]
		if c.Iface || strings.Contains(k, "@") {
			continue
		}
		if opt.FnFilter != "" && !strings.Contains(k, opt.FnFilter) {
			continue
		}
		f := P.fnByKey[k]
		if f == nil && strings.HasPrefix(c.Impl, "@") && !strings.Contains(c.Name, "(") && strings.Count(c.Name, ".") == 1 {
			continue // callback contract of a struct field (Type.field)
		}
		tags := c.AllTags()
		relevant := prop == "all" || hasTag(tags, prop) || (prop == "C20" && !c.Trusted)
		if c.Trusted {
			if f == nil && c.PkgPath != "" && relevant {
				transErrs = append(transErrs, fmt.Sprintf("contract %s (%s): no such function in the loaded program", k, c.Src))
			}
			continue
		}
		if !relevant {
			continue
		}
		if f == nil {
			transErrs = append(transErrs, fmt.Sprintf("contract %s (%s): no such function in the loaded program", k, c.Src))
			continue
		}
		if f.Blocks == nil {
			transErrs = append(transErrs, fmt.Sprintf("contract %s: function has no body", k))
			continue
		}
		t := P.VerifyFunc(f, c)
		for _, e := range t.errs {
			transErrs = append(transErrs, shortKey(k)+": "+e)
		}
		for _, n := range t.notes {
			if opt.Verbose && !notes[n] {
				fmt.Println("note:", n)
			}
			notes[n] = true
		}
		for tk := range t.trustedUsed {
			trusted[tk] = true
		}
		funcsUnder[shortKey(k)] = true
		for _, o := range t.obls {
			nGenerated++
			if !(prop == "all" || hasTag(o.Tags, prop)) {
				continue
			}
			if opt.ObFilter != "" && !strings.Contains(o.Name, opt.ObFilter) {
				continue
			}
			// "extra thorough-only <substring>": obligations the contract marks as too heavy for the quick tier
			// (they need the long solver budget and case splitting); checked by the thorough tier, listed as
			// deferred by the quick one
			deferred := false
			if opt.Tier != "thorough" {
				for _, x := range c.Extra["thorough-only"] {
					for _, a := range sxAtoms(x) {
						if strings.Contains(o.Name, a) {
							deferred = true
						}
					}
				}
			}
			if deferred {
				deferredToThorough = append(deferredToThorough, o.Name)
				continue
			}
			items = append(items, &Result{O: o, T: t})
		}
	}
	for _, lm := range P.cs.Lemmas {
		if !(prop == "all" || hasTag(lm.Tags, prop)) {
			continue
		}
		if opt.FnFilter != "" && !strings.Contains("lemma."+lm.Name, opt.FnFilter) {
			continue
		}
		if opt.ObFilter != "" && !strings.Contains("lemma."+lm.Name, opt.ObFilter) {
			continue
		}
		t := P.VerifyLemma(lm)
		for _, e := range t.errs {
			transErrs = append(transErrs, "lemma "+lm.Name+": "+e)
		}
		for _, o := range t.obls {
			items = append(items, &Result{O: o, T: t})
		}
	}

	// Consistency of the background theory: one query per distinct header (set of prelude modules in use), with
	// the quantified axioms in place. "unsat" means contradictory axioms: every proof under that header would be
	// vacuous, so it is reported as a violation of the property being checked.
	seenHdr := map[string]bool{}
	for _, it := range append([]*Result{}, items...) {
		h := strings.Join(sortedKeys(it.T.uses), "+") // the axioms come from the prelude modules in use
		if seenHdr[h] {
			continue
		}
		seenHdr[h] = true
		name := fmt.Sprintf("prelude#consistent.%s", strings.Join(sortedKeys(it.T.uses), "+"))
		o := &Oblig{Name: name, Kind: "prelude", Fn: "prelude", Tags: []string{prop}, Goal: "true", Ctx: 0, Expect: "sat", Pos: "prelude", Desc: "the background theory in use is consistent (vacuity guard)"}
		items = append(items, &Result{O: o, T: it.T})
	}

	sopt := SolveOpts{OutDir: opt.OutDir, Tier: opt.Tier, Workers: runtime.NumCPU(), QuickSec: 5, FullSec: 45}
	if opt.Tier == "thorough" {
		sopt.QuickSec, sopt.FullSec = 10, 180
	}
	os.RemoveAll(filepath.Join(opt.OutDir, "smt"))
	solveAll(items, sopt)

	// classify
	byBackend := map[string]int{}
	var solverS float64
	nClaimed, nDischarged, nCover, nCoverOK := 0, 0, 0, 0
	var violations []*Result
	var knownHits []KnownFinding
	var unclaimedUndischarged []string
	var coverUnknown []string
	sort.Strings(deferredToThorough)
	var samples []map[string]interface{}
	var slowest []*Result
	for _, r := range items {
		solverS += r.TimeS
		name := r.O.Name
		if r.O.Expect == "sat" {
			nCover++
			if r.Verdict == "cover-ok" {
				nCoverOK++
			} else if r.Verdict == "cover-unknown" {
				coverUnknown = append(coverUnknown, name)
			} else {
				// vacuity: a cover that is not satisfiable means the function's obligations are vacuous
				violations = append(violations, r)
			}
			continue
		}
		if kf, isKnown := knownBy[name]; isKnown {
			if r.Verdict != "discharged" {
				knownHits = append(knownHits, kf)
			}
			continue
		}
		if isUnclaimed(name) && !opt.NoBaseline {
			if r.Verdict != "discharged" {
				unclaimedUndischarged = append(unclaimedUndischarged, name)
			}
			continue
		}
		nClaimed++
		if r.Verdict == "discharged" {
			nDischarged++
			byBackend[r.Solver]++
		} else {
			violations = append(violations, r)
		}
		slowest = append(slowest, r)
	}
	sort.Slice(slowest, func(i, j int) bool { return slowest[i].TimeS > slowest[j].TimeS })
	if len(slowest) > 5 {
		slowest = slowest[:5]
	}
	for i, r := range items {
		if i%max(1, len(items)/8) == 0 && len(samples) < 8 {
			samples = append(samples, map[string]interface{}{"obligation": r.O.Name, "kind": r.O.Kind, "verdict": r.Verdict, "solver": r.Solver, "time_s": round3(r.TimeS), "at": r.O.Pos, "what": r.O.Desc})
		}
	}

	// interface contracts this run relied on: every clover method that can stand behind the interface must be verified
	// against the contract; the store interfaces are the documented exception (their adapters are verified against
	// library-level contracts, the link to the protocol-level interface contract is an assumption)
	var assumedIface []string
	for _, l := range P.uncheckedImplementers(true) {
		if strings.Contains(l, " stands behind "+modPath+"/store.") {
			assumedIface = append(assumedIface, l)
			continue
		}
		transErrs = append(transErrs, "interface contract relied on by this check: "+l)
	}
	exit := 0
	replayDir := filepath.Join(opt.OutDir, "replay", prop)
	os.MkdirAll(replayDir, 0o755)
	for _, e := range transErrs {
		fmt.Printf("ENGINE-ERROR %s\n", e)
	}
	if len(transErrs) > 0 {
		rp := filepath.Join(replayDir, "engine-errors.txt")
		os.WriteFile(rp, []byte("obligation: translation\nThe verifier could not translate part of the code under contract, so obligations of "+prop+" are missing:\n"+strings.Join(transErrs, "\n")+"\n"), 0o644)
		fmt.Printf("VIOLATION property=%s replay=%s no-failing-input-found\n", prop, rp)
		exit = 1
	}
	for _, r := range violations {
		if r.Raw != "" && strings.Contains(r.Raw, "(error") && r.Model == "" {
			first := r.Raw
			if i := strings.Index(first, "\n"); i > 0 {
				first = first[:i]
			}
			fmt.Printf("SOLVER-ERROR %s: %s\n", r.O.Name, first)
		}
		rp := writeReplay(P, replayDir, r)
		suffix := ""
		if !r.replayFails {
			suffix = " no-failing-input-found"
		}
		fmt.Printf("VIOLATION property=%s replay=%s%s\n", prop, rp, suffix)
		if opt.Verbose {
			fmt.Printf("  obligation %s (%s) verdict=%s tried=%v file=%s\n", r.O.Name, r.O.Pos, r.Verdict, r.Tried, r.File)
		}
		exit = 1
	}
	for _, k := range knownHits {
		fmt.Printf("KNOWN-FINDING: property=%s %s [%s]\n", prop, k.What, k.Obligation)
	}
	for _, n := range unclaimedUndischarged {
		if opt.Verbose {
			fmt.Printf("unclaimed (not counted): %s\n", n)
		}
	}
	wall := time.Since(start).Seconds()
	fmt.Printf("govc: property %s tier %s: %d functions under contract, %d obligations claimed, %d discharged, %d covers (%d ok), %d known findings, %d violations, %.1fs wall, %.1fs solver\n",
		prop, opt.Tier, len(funcsUnder), nClaimed, nDischarged, nCover, nCoverOK, len(knownHits), len(violations), wall, solverS)

	if opt.Evidence != "" {
		var fl, tl, nl []string
		for k := range funcsUnder {
			fl = append(fl, k)
		}
		for k := range trusted {
			tl = append(tl, k)
		}
		for k := range notes {
			nl = append(nl, k)
		}
		sort.Strings(fl)
		sort.Strings(tl)
		sort.Strings(nl)
		var slow []map[string]interface{}
		for _, r := range slowest {
			slow = append(slow, map[string]interface{}{"obligation": r.O.Name, "time_s": round3(r.TimeS), "solver": r.Solver})
		}
		var viol []string
		for _, r := range violations {
			viol = append(viol, r.O.Name+" ("+r.Verdict+")")
		}
		var kh []string
		for _, k := range knownHits {
			kh = append(kh, k.Obligation+": "+k.What)
		}
		level := "proof"
		tb := append([]string{}, assumptionsBase...)
		if len(assumedIface) > 0 {
			tb = append(tb, fmt.Sprintf("interface contracts of package store used by this check are ASSUMED of the adapters (%d adapter methods verified against library-level contracts only; run `govc ifacecheck` for the list)", len(assumedIface)))
		}
		for _, k := range tl {
			tb = append(tb, "trusted contract: "+k)
		}
		cov := map[string]interface{}{
			"obligations":             nClaimed,
			"discharged":              nDischarged,
			"checker_cmd":             fmt.Sprintf("/verif/bin/govc check -prop %s -tier %s (go/ssa weakest-precondition VCs over /repo's working tree, discharged by z3 4.8.12 / z3 5.1.0 / cvc5 1.0.3)", prop, opt.Tier),
			"trusted_base":            tb,
			"functions_under_contract": fl,
			"by_backend":              byBackend,
			"solver_s":                round3(solverS),
			"slowest":                 slow,
			"covers":                  nCover,
			"covers_satisfiable":      nCoverOK,
			"covers_undecided":        coverUnknown,
			"undischarged":            viol,
			"known_findings":          kh,
			"unclaimed_undischarged":  unclaimedUndischarged,
			"deferred_to_thorough_tier": deferredToThorough,
			"abstractions":            nl,
			"samples":                 samples,
			"engine_errors":           transErrs,
			"obligations_generated_total": nGenerated,
		}
		ev := map[string]interface{}{
			"property_id": prop, "tier": opt.Tier, "seed": seedEnv(), "level": level,
			"coverage": cov, "assumptions": tb, "wall_s": round3(wall), "violations": len(violations) + len(transErrs),
		}
		data, _ := json.MarshalIndent(ev, "", " ")
		os.MkdirAll(filepath.Dir(opt.Evidence), 0o755)
		os.WriteFile(opt.Evidence, data, 0o644)
	}
	if nClaimed == 0 && len(transErrs) == 0 && opt.FnFilter == "" && opt.ObFilter == "" {
		fmt.Printf("govc: no obligation generated for %s (vacuous check)\n", prop)
		return 1
	}
	return exit
}

var processStart = time.Now()

var assumptionsBase = []string{
	"A1: go/types + go/ssa (x/tools v0.29.0) represent the program the gc compiler builds",
	"A2: z3 / cvc5 are sound; govc prints SMT-LIB faithfully",
	"A3: govc's semantics of the Go subset (DESIGN.md section 2)",
	"A15: integers are 64-bit vectors (not idealised); lengths < 2^40",
	"A18: at the `v = append(v, ...)` call sites accepted by the syntactic linearity check (listed under abstractions) no other slice header in use exposes the cells behind len(v); every other append is modelled in place",
	"A19: []byte values are immutable byte strings: in-place updates through aliased byte slices (e.g. a store buffer reused after the cursor moved) are not modelled",
}

func round3(f float64) float64 { return float64(int(f*1000+0.5)) / 1000 }

func max(a, b int) int {
	if a > b {
		return a
	}
	return b
}
