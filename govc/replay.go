package main

import (
	"fmt"
	"os"
	"path/filepath"
	"strings"
)

// writeReplay writes the replay file of a failed obligation: obligation name, what it says,
// the solver output (model when there is one) and, when a value replay exists for the
// function family, the outcome of running the counterexample against the real code.
func writeReplay(P *Prog, dir string, r *Result) string {
	path := filepath.Join(dir, smtSym(r.O.Name)+".txt")
	var b strings.Builder
	fmt.Fprintf(&b, "obligation: %s\nkind: %s\nfunction: %s\nat: %s\nmeaning: %s\nverdict: %s\nsolvers tried: %s\nsmt query: %s\n",
		r.O.Name, r.O.Kind, r.O.Fn, r.O.Pos, r.O.Desc, r.Verdict, strings.Join(r.Tried, " "), r.File)
	if r.Verdict == "refuted" || r.Candidate {
		if r.Verdict == "refuted" {
			b.WriteString("\nThe solver found a counterexample to this obligation.\n")
		} else {
			b.WriteString("\nNo solver discharged this obligation; without its quantified hypotheses the solver found a candidate counterexample.\n")
		}
		inputs := modelInputs(r)
		if inputs != "" {
			b.WriteString("counterexample inputs (from the model):\n" + inputs + "\n")
		}
		out, failed, ran := runValueReplay(P, r)
		if ran {
			r.replayFails = failed
			b.WriteString("\nreplay against the real code:\n" + out + "\n")
			if failed {
				b.WriteString("REPLAY-RESULT: the real code violates the obligation on this input\n")
			} else {
				b.WriteString("REPLAY-RESULT: no failing input found by replay (the obligation still fails deductively)\n")
			}
		} else {
			b.WriteString("\nno executable replay available for this obligation family (no-failing-input-found)\n")
		}
		b.WriteString("\n--- solver output ---\n")
		m := r.Model
		if len(m) > 20000 {
			m = m[:20000] + "\n...[truncated]"
		}
		b.WriteString(m)
	} else if out, failed, ran := runValueReplay(P, r); ran {
		r.replayFails = failed
		b.WriteString("\nNo solver discharged this obligation. Scenario replay against the real code:\n" + out + "\n")
		if failed {
			b.WriteString("REPLAY-RESULT: the real code violates the obligation in this scenario\n")
		} else {
			b.WriteString("REPLAY-RESULT: no failing input found by replay (the obligation still fails deductively)\n")
		}
	} else {
		b.WriteString("\nNo solver could discharge this obligation within the time limit; no counterexample was produced (no-failing-input-found).\n")
		if r.Raw != "" {
			b.WriteString("\n--- solver output ---\n" + r.Raw)
		}
	}
	os.WriteFile(path, []byte(b.String()), 0o644)
	return path
}

// modelInputs extracts the values of the function's parameters from a z3 model.
func modelInputs(r *Result) string {
	if r.T == nil || r.Model == "" {
		return ""
	}
	vals := parseGetValue(r.Model)
	var b strings.Builder
	for _, n := range r.T.evalTerms {
		if v, ok := vals[n]; ok {
			fmt.Fprintf(&b, "  %s = %s\n", n, v)
		}
	}
	return b.String()
}

// parseModel reads "(define-fun name () Sort value)" entries of a model.
func parseModel(out string) map[string]string {
	res := map[string]string{}
	i := strings.Index(out, "(")
	if i < 0 {
		return res
	}
	sx, err := parseAllSx(out[i:])
	if err != nil {
		return res
	}
	var walk func(x *Sx)
	walk = func(x *Sx) {
		if x.IsAtom() {
			return
		}
		if x.Head() == "define-fun" && len(x.List) == 5 && x.List[2].IsL && len(x.List[2].List) == 0 {
			res[x.List[1].Atom] = x.List[4].String()
			return
		}
		for _, y := range x.List {
			walk(y)
		}
	}
	for _, x := range sx {
		walk(x)
	}
	return res
}
