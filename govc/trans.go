package main

import (
	"fmt"
	"go/token"
	"go/types"
	"sort"
	"strings"
	"sync"

	"golang.org/x/tools/go/ssa"
)

// ---------------------------------------------------------------------------------
// State: mapping state component -> current SMT term (persistent, copy on write)

type State struct{ m map[string]string }

func (s State) get(comp string) string {
	if v, ok := s.m[comp]; ok {
		return v
	}
	return comp + "@0"
}

func (s State) set(comp, term string) State {
	n := make(map[string]string, len(s.m)+1)
	for k, v := range s.m {
		n[k] = v
	}
	n[comp] = term
	return State{n}
}

func (s State) keys() []string {
	ks := make([]string, 0, len(s.m))
	for k := range s.m {
		ks = append(ks, k)
	}
	sort.Strings(ks)
	return ks
}

// ---------------------------------------------------------------------------------

type Oblig struct {
	Name   string
	Kind   string
	Fn     string
	Tags   []string
	Goal   string
	Ctx    int
	Expect string // "unsat": prove Goal (assert its negation); "sat": cover query (assert Goal)
	Pos    string
	Desc   string
	Query  string // filled by emit
	Uses   []string
	// model extraction: SMT terms whose values are asked for on a sat answer
	Eval []string
}

type Trans struct {
	P                *Prog
	env              *TypeEnv
	top              *ssa.Function
	topC             *Contract
	cmds             []string
	obls             []*Oblig
	nfresh           int
	uses             map[string]bool
	notes            []string // abstractions applied (reported in evidence)
	errs             []string
	fnIDs            map[*ssa.Function]int
	nframes          int
	stack            []*ssa.Function
	ghosts           map[string]string // top-level ghost params -> term
	obNames          map[string]int
	evalTerms        []string
	trustedUsed      map[string]bool
	underContract    map[string]bool
	reqOld           *State
	pendingFinals    map[int]string
	curCallValue     ssa.Value // the call instruction of the builtin being translated
	pendingMaintains []func(State) string
	selfTerm         string
	topFrame         *Frame
	snapshots        map[string]State
	splitTerms       []string // "extra split" hints: Boolean terms over the entry state to split hard obligations on
	hdrOnce          sync.Once
	hdr              string
}

func NewTrans(P *Prog) *Trans {
	t := &Trans{P: P, env: NewTypeEnv(), uses: map[string]bool{"base": true}, fnIDs: map[*ssa.Function]int{}, ghosts: map[string]string{}, obNames: map[string]int{}, trustedUsed: map[string]bool{}, underContract: map[string]bool{}, snapshots: map[string]State{}}
	t.env.addrFields = P.addrFields
	t.env.Comp("alloc", "Int")
	return t
}

func (t *Trans) emit(cmd string) { t.cmds = append(t.cmds, cmd) }

func (t *Trans) fresh(hint string) string {
	t.nfresh++
	return fmt.Sprintf("%s!%d", smtSym(hint), t.nfresh)
}

func (t *Trans) freshConst(sort, hint string) string {
	n := t.fresh(hint)
	t.emit(fmt.Sprintf("(declare-const %s %s)", n, sort))
	return n
}

func (t *Trans) define(sort, hint, term string) string {
	if isSimpleTerm(term) {
		return term
	}
	n := t.fresh(hint)
	if sort == "Bool" || strings.HasPrefix(sort, "(_ ") {
		t.emit(fmt.Sprintf("(define-fun %s () %s %s)", n, sort, term))
		return n
	}
	// values that may occur in quantifier patterns (references, slices, heap versions, alloc
	// counters) are named constants with a defining equation rather than macros, so that a
	// pattern never expands to a term with Boolean structure
	t.emit(fmt.Sprintf("(declare-const %s %s)", n, sort))
	t.emit(fmt.Sprintf("(assert (= %s %s))", n, term))
	return n
}

func isSimpleTerm(s string) bool {
	return !strings.ContainsAny(s, "( ") || s == "true" || s == "false"
}

func (t *Trans) assume(guard, fact string) {
	if fact == "true" {
		return
	}
	if guard == "true" {
		t.emit("(assert " + fact + ")")
	} else {
		t.emit(fmt.Sprintf("(assert (=> %s %s))", guard, fact))
	}
}

func (t *Trans) note(format string, a ...interface{}) {
	s := fmt.Sprintf(format, a...)
	for _, n := range t.notes {
		if n == s {
			return
		}
	}
	t.notes = append(t.notes, s)
}

func (t *Trans) errorf(format string, a ...interface{}) {
	t.errs = append(t.errs, fmt.Sprintf(format, a...))
}

func (t *Trans) oblige(kind, name string, tags []string, guard, goal string, pos token.Pos, desc string) *Oblig {
	full := name
	t.obNames[full]++
	if n := t.obNames[full]; n > 1 {
		full = fmt.Sprintf("%s~%d", name, n)
	}
	g := goal
	if guard != "true" {
		g = fmt.Sprintf("(=> %s %s)", guard, goal)
	}
	o := &Oblig{Name: full, Kind: kind, Fn: t.P.FnKey(t.top), Tags: tags, Goal: g, Ctx: len(t.cmds), Expect: "unsat", Desc: desc}
	if pos.IsValid() {
		p := t.P.prog.Fset.Position(pos)
		o.Pos = fmt.Sprintf("%s:%d", shortPath(p.Filename), p.Line)
	}
	t.obls = append(t.obls, o)
	return o
}

func shortPath(p string) string {
	return strings.TrimPrefix(p, "/repo/")
}

func (t *Trans) fnID(f *ssa.Function) int {
	if id, ok := t.fnIDs[f]; ok {
		return id
	}
	id := len(t.fnIDs) + 1
	t.fnIDs[f] = id
	return id
}

// ---------------------------------------------------------------------------------
// Frames

type retInfo struct {
	cond    string
	results []string
	st      State
}

type deferInfo struct {
	instr *ssa.Defer
	block *ssa.BasicBlock
}

type loopRec struct {
	header   *ssa.BasicBlock
	ordinal  int
	phiH     map[*ssa.Phi]string
	stH      State
	measureH string
	measInt  bool
	spec     *LoopSpec
	body     map[*ssa.BasicBlock]bool
	autoInv  []autoInv
}

type autoInv struct {
	label string
	build func(sc *SpecCtx) string
}

type Frame struct {
	t        *Trans
	fn       *ssa.Function
	id       string
	path     string // naming prefix for obligations of inlined frames
	vals     map[ssa.Value]string
	tuples   map[ssa.Value][]string
	reach    map[*ssa.BasicBlock]string
	outState map[*ssa.BasicBlock]State
	edge     map[[3]int]string // pred index, succ index, succ slot -> edge-taken term
	rets     []retInfo
	defers   []deferInfo
	args     []string
	freeVars []string
	entrySt  State
	loops    map[*ssa.BasicBlock]*loopRec
	backEdge map[[2]int]bool
	dbg      map[string][]dbgRef
	contract *Contract
	ghosts   map[string]string
	closures map[ssa.Value]*closureInfo
	top      bool
	tags     []string
	curBlock *ssa.BasicBlock
	curReach string
	st       State // running state while executing a block
	bytearr  map[ssa.Value]bool
	gmaps    map[ssa.Value]*ssa.Global
	fvFinal  map[int]string // free variable index -> value (effectively final captures)
}

type dbgRef struct {
	v      ssa.Value
	isAddr bool
	block  *ssa.BasicBlock
	obj    types.Object
}

type closureInfo struct {
	fn       *ssa.Function
	bindings []string
	finals   map[int]string
}

func (t *Trans) newFrame(fn *ssa.Function, args []string, path string) *Frame {
	t.nframes++
	fr := &Frame{t: t, fn: fn, id: fmt.Sprintf("f%d", t.nframes), path: path,
		vals: map[ssa.Value]string{}, tuples: map[ssa.Value][]string{},
		reach: map[*ssa.BasicBlock]string{}, outState: map[*ssa.BasicBlock]State{},
		edge: map[[3]int]string{}, args: args, loops: map[*ssa.BasicBlock]*loopRec{},
		backEdge: map[[2]int]bool{}, dbg: map[string][]dbgRef{}, ghosts: map[string]string{},
		closures: map[ssa.Value]*closureInfo{}, bytearr: map[ssa.Value]bool{}, gmaps: map[ssa.Value]*ssa.Global{}, fvFinal: map[int]string{}}
	for i, p := range fn.Params {
		if i < len(args) {
			fr.vals[p] = args[i]
		}
	}
	return fr
}

func (fr *Frame) name(v ssa.Value) string {
	return fr.id + "!" + smtSym(v.Name())
}

// ---------------------------------------------------------------------------------
// loop analysis

func (fr *Frame) analyzeLoops() {
	fn := fr.fn
	for _, b := range fn.Blocks {
		for _, s := range b.Succs {
			if s.Dominates(b) {
				fr.backEdge[[2]int{b.Index, s.Index}] = true
				if fr.loops[s] == nil {
					fr.loops[s] = &loopRec{header: s, body: map[*ssa.BasicBlock]bool{s: true}}
				}
			}
		}
	}
	// natural loop bodies
	for h, lr := range fr.loops {
		var work []*ssa.BasicBlock
		for _, p := range h.Preds {
			if fr.backEdge[[2]int{p.Index, h.Index}] && !lr.body[p] {
				lr.body[p] = true
				work = append(work, p)
			}
		}
		for len(work) > 0 {
			b := work[len(work)-1]
			work = work[:len(work)-1]
			for _, p := range b.Preds {
				if !lr.body[p] {
					lr.body[p] = true
					work = append(work, p)
				}
			}
		}
	}
	// ordinals by header block index (source order)
	var hs []*ssa.BasicBlock
	for h := range fr.loops {
		hs = append(hs, h)
	}
	sort.Slice(hs, func(i, j int) bool { return hs[i].Index < hs[j].Index })
	for i, h := range hs {
		fr.loops[h].ordinal = i
		if fr.contract != nil {
			fr.loops[h].spec = fr.contract.Loops[i]
		}
	}
}

func (fr *Frame) rpo() []*ssa.BasicBlock {
	fn := fr.fn
	seen := map[*ssa.BasicBlock]bool{}
	var post []*ssa.BasicBlock
	var dfs func(b *ssa.BasicBlock)
	dfs = func(b *ssa.BasicBlock) {
		seen[b] = true
		// visit successors in reverse so that RPO follows source order
		for i := len(b.Succs) - 1; i >= 0; i-- {
			s := b.Succs[i]
			if fr.backEdge[[2]int{b.Index, s.Index}] || seen[s] {
				continue
			}
			dfs(s)
		}
		post = append(post, b)
	}
	if len(fn.Blocks) > 0 {
		dfs(fn.Blocks[0])
	}
	for i, j := 0, len(post)-1; i < j; i, j = i+1, j-1 {
		post[i], post[j] = post[j], post[i]
	}
	return post
}

func (fr *Frame) collectDebugRefs() {
	for _, b := range fr.fn.Blocks {
		for _, in := range b.Instrs {
			if d, ok := in.(*ssa.DebugRef); ok {
				if o := d.Object(); o != nil {
					if _, isVar := o.(*types.Var); isVar {
						fr.dbg[o.Name()] = append(fr.dbg[o.Name()], dbgRef{d.X, d.IsAddr, b, o})
					}
				}
			}
		}
	}
}

// ---------------------------------------------------------------------------------
// Block execution

// slot returns which successor slot of p leads to b for the k-th occurrence of p in b.Preds.
func predSlot(b *ssa.BasicBlock, predIdx int) int {
	p := b.Preds[predIdx]
	occ := 0
	for i := 0; i < predIdx; i++ {
		if b.Preds[i] == p {
			occ++
		}
	}
	n := 0
	for si, s := range p.Succs {
		if s == b {
			if n == occ {
				return si
			}
			n++
		}
	}
	return 0
}

type inEdge struct {
	predIdx int
	pred    *ssa.BasicBlock
	term    string
	st      State
}

func orTerms(ts []string) string {
	if len(ts) == 0 {
		return "false"
	}
	if len(ts) == 1 {
		return ts[0]
	}
	return "(or " + strings.Join(ts, " ") + ")"
}

func andTerms(ts ...string) string {
	var xs []string
	for _, x := range ts {
		if x == "true" || x == "" {
			continue
		}
		if x == "false" {
			return "false"
		}
		xs = append(xs, x)
	}
	if len(xs) == 0 {
		return "true"
	}
	if len(xs) == 1 {
		return xs[0]
	}
	return "(and " + strings.Join(xs, " ") + ")"
}

// mergeStates builds the state at a join from incoming edges.
func (t *Trans) mergeStates(edges []inEdge, hint string) State {
	if len(edges) == 0 {
		return State{}
	}
	if len(edges) == 1 {
		return edges[0].st
	}
	compSet := map[string]bool{}
	for _, e := range edges {
		for k := range e.st.m {
			compSet[k] = true
		}
	}
	comps := make([]string, 0, len(compSet))
	for k := range compSet {
		comps = append(comps, k)
	}
	sort.Strings(comps)
	out := State{map[string]string{}}
	for _, c := range comps {
		first := edges[0].st.get(c)
		same := true
		for _, e := range edges[1:] {
			if e.st.get(c) != first {
				same = false
				break
			}
		}
		if same {
			out.m[c] = first
			continue
		}
		vals := make([]string, len(edges))
		for i, e := range edges {
			vals[i] = e.st.get(c)
		}
		out.m[c] = t.define(t.env.comps[c], c+"@m", iteChain(edges, vals))
	}
	return out
}

func iteChain(edges []inEdge, vals []string) string {
	term := vals[len(vals)-1]
	for i := len(vals) - 2; i >= 0; i-- {
		if vals[i] == term {
			continue
		}
		term = fmt.Sprintf("(ite %s %s %s)", edges[i].term, vals[i], term)
	}
	return term
}

func (t *Trans) execBody(fr *Frame, entryReach string, st State) {
	fn := fr.fn
	fr.entrySt = st
	fr.analyzeLoops()
	fr.collectDebugRefs()
	order := fr.rpo()
	for _, b := range order {
		var edges []inEdge
		if b == fn.Blocks[0] {
			edges = append(edges, inEdge{-1, nil, entryReach, st})
		}
		for pi, p := range b.Preds {
			if fr.backEdge[[2]int{p.Index, b.Index}] {
				continue
			}
			if _, ok := fr.reach[p]; !ok {
				continue // unreachable predecessor (e.g. recover block)
			}
			slot := predSlot(b, pi)
			et, ok := fr.edge[[3]int{p.Index, b.Index, slot}]
			if !ok {
				continue
			}
			edges = append(edges, inEdge{pi, p, et, fr.outState[p]})
		}
		if len(edges) == 0 {
			continue
		}
		var ets []string
		for _, e := range edges {
			ets = append(ets, e.term)
		}
		reach := t.define("Bool", fr.id+"!reach"+fmt.Sprint(b.Index), orTerms(ets))
		cur := t.mergeStates(edges, fmt.Sprint(b.Index))
		// phis
		phiPre := map[*ssa.Phi]string{}
		for _, in := range b.Instrs {
			phi, ok := in.(*ssa.Phi)
			if !ok {
				break
			}
			vals := make([]string, len(edges))
			for i, e := range edges {
				if e.predIdx < 0 {
					vals[i] = t.env.Zero(phi.Type())
				} else {
					vals[i] = fr.val(phi.Edges[e.predIdx])
				}
			}
			phiPre[phi] = t.define(t.env.SortOf(phi.Type()), fr.name(phi)+"pre", iteChain(edges, vals))
		}
		fr.reach[b] = reach
		fr.curBlock = b
		fr.curReach = reach
		if lr := fr.loops[b]; lr != nil {
			cur = t.enterLoop(fr, lr, reach, cur, phiPre)
		} else {
			for phi, v := range phiPre {
				fr.vals[phi] = v
			}
		}
		fr.st = cur
		for _, in := range b.Instrs {
			if _, isPhi := in.(*ssa.Phi); isPhi {
				continue
			}
			t.execInstr(fr, in)
			if len(t.errs) > 20 {
				return
			}
		}
		fr.outState[b] = fr.st
		// back edges leaving this block
		for si, s := range b.Succs {
			if fr.backEdge[[2]int{b.Index, s.Index}] {
				if et, ok := fr.edge[[3]int{b.Index, s.Index, si}]; ok {
					t.closeLoop(fr, fr.loops[s], b, et, fr.st)
				}
			}
		}
	}
}

// valueAtHeader resolves a source-level variable name at loop header / program point b.
func (fr *Frame) lookupVar(name string, at *ssa.BasicBlock, st State, phiOverride map[*ssa.Phi]string) (string, types.Type, bool) {
	// parameters
	for _, p := range fr.fn.Params {
		if p.Name() == name {
			return fr.val(p), p.Type(), true
		}
	}
	for i, fv := range fr.fn.FreeVars {
		if fv.Name() == name && i < len(fr.freeVars) {
			// free variables are pointers to the captured variable
			pt := fv.Type().(*types.Pointer).Elem()
			if v, ok := fr.fvFinal[i]; ok {
				return v, pt, true
			}
			return fr.t.loadFrom(fr, nil, fr.freeVars[i], pt, st), pt, true
		}
	}
	// "name@N": the loop-carried variable of loop ordinal N (e.g. the outer rangeindex inside an inner loop)
	if i := strings.LastIndex(name, "@"); i > 0 {
		var n int
		if _, err := fmt.Sscanf(name[i+1:], "%d", &n); err == nil {
			for h, lr := range fr.loops {
				if lr.ordinal != n {
					continue
				}
				for _, in := range h.Instrs {
					phi, ok := in.(*ssa.Phi)
					if !ok {
						break
					}
					if phi.Comment == name[:i] {
						if h == at && phiOverride != nil {
							if v, ok := phiOverride[phi]; ok {
								return v, phi.Type(), true
							}
						}
						if v, ok := fr.vals[phi]; ok {
							return v, phi.Type(), true
						}
					}
				}
			}
		}
	}
	// phis at this block carrying that variable
	if at != nil {
		for _, in := range at.Instrs {
			phi, ok := in.(*ssa.Phi)
			if !ok {
				break
			}
			if phi.Comment == name {
				if phiOverride != nil {
					if v, ok := phiOverride[phi]; ok {
						return v, phi.Type(), true
					}
				}
				if v, ok := fr.vals[phi]; ok {
					return v, phi.Type(), true
				}
			}
		}
	}
	refs := fr.dbg[name]
	var best *dbgRef
	for i := range refs {
		r := &refs[i]
		if r.isAddr {
			if a, ok := r.v.(*ssa.Alloc); ok {
				if _, done := fr.vals[a]; done {
					pt := a.Type().(*types.Pointer).Elem()
					return fr.t.loadFrom(fr, nil, fr.vals[a], pt, st), pt, true
				}
			}
			continue
		}
		if _, isConst := r.v.(*ssa.Const); isConst {
			continue
		}
		if _, done := fr.vals[r.v]; !done {
			if _, isT := fr.tuples[r.v]; !isT {
				continue
			}
		}
		in, ok := r.v.(ssa.Instruction)
		if ok && at != nil && !in.Block().Dominates(at) {
			continue
		}
		if _, isPhi := r.v.(*ssa.Phi); isPhi && at != nil && r.v.(*ssa.Phi).Block() != at && fr.loops[r.v.(*ssa.Phi).Block()] != nil {
			// phi of another (enclosing or earlier) loop: fine, it is a definite value
		}
		best = r
	}
	if best != nil {
		return fr.val(best.v), best.v.Type(), true
	}
	return "", nil, false
}

// ---------------------------------------------------------------------------------
// Loops

func (t *Trans) loopWrites(fr *Frame, lr *loopRec) map[string]string {
	out := map[string]string{}
	for b := range lr.body {
		for _, in := range b.Instrs {
			for c, s := range t.P.instrWrites(t.env, fr.fn, in) {
				out[c] = s
			}
			// a Next inside the loop advances the visited set of its map range: the set is part of the
			// loop state and is unknown at the head (invariants speak about it through (visited k))
			if nx, ok := in.(*ssa.Next); ok {
				if r, ok := nx.Iter.(*ssa.Range); ok {
					if _, isMap := r.X.Type().Underlying().(*types.Map); isMap {
						c := t.iterComp(fr, r)
						out[c] = t.env.comps[c]
					}
				}
			}
		}
	}
	return out
}

// loopLocalFrames: for every heap component the loop writes only through stores whose base object is fixed
// before the loop (map updates, field stores) or in freshly allocated objects, an invariant saying that all
// other locations that existed at loop entry keep the value they had there. Proved like any invariant
// (inv.init / inv.keep), so a wrong classification costs an alarm, never soundness.
func (t *Trans) loopLocalFrames(fr *Frame, lr *loopRec, pre State) []autoInv {
	if !fr.top {
		return nil
	}
	env := t.env
	bases := map[string][]ssa.Value{}
	unknown := map[string]bool{}
	outside := func(v ssa.Value) bool {
		in, ok := v.(ssa.Instruction)
		return !ok || !lr.body[in.Block()]
	}
	for b := range lr.body {
		for _, in := range b.Instrs {
			switch x := in.(type) {
			case *ssa.MapUpdate:
				h, v, l := env.mapComps(x.Map.Type())
				for _, c := range []string{h, v, l} {
					if outside(x.Map) {
						bases[c] = append(bases[c], x.Map)
					} else {
						unknown[c] = true
					}
				}
			case *ssa.Store:
				w := map[string]string{}
				t.P.directWrites(env, fr.fn, in, w, nil)
				fa, isFA := x.Addr.(*ssa.FieldAddr)
				for c := range w {
					if isFA && outside(fa.X) && !isStructType(x.Addr.Type().Underlying().(*types.Pointer).Elem()) && c == env.fieldComp(fa.X.Type().Underlying().(*types.Pointer).Elem(), fa.Field) {
						bases[c] = append(bases[c], fa.X)
					} else {
						unknown[c] = true
					}
				}
			case *ssa.Alloc, *ssa.MakeMap, *ssa.MakeSlice, *ssa.MakeClosure, *ssa.MakeInterface:
				// fresh locations only
			case *ssa.Call, *ssa.Defer, *ssa.Go:
				var cc *ssa.CallCommon
				switch y := in.(type) {
				case *ssa.Call:
					cc = y.Common()
				case *ssa.Defer:
					cc = y.Common()
				}
				var ct *Contract
				if cc != nil {
					if cc.IsInvoke() {
						ct = t.P.IfaceContract(cc.Value.Type(), cc.Method)
					} else if f, ok := cc.Value.(*ssa.Function); ok {
						ct = t.P.ContractFor(f)
					}
				}
				if ct != nil && !ct.Inline {
					// a callee under contract changes existing locations only as its modifies clause says
					for c := range t.P.declaredWrites(env, ct) {
						unknown[c] = true
					}
					for _, x := range ct.Extra["writes"] {
						for _, a := range sxAtoms(x) {
							unknown[a] = true
						}
					}
					continue
				}
				for c := range t.P.instrWrites(env, fr.fn, in) {
					unknown[c] = true
				}
			}
		}
	}
	if unknown["*"] {
		return nil
	}
	var out []autoInv
	var cs []string
	for c := range t.loopWrites(fr, lr) {
		cs = append(cs, c)
	}
	sort.Strings(cs)
	for _, c := range cs {
		c := c
		if unknown[c] || t.P.ghostComps[c] != "" || !strings.HasPrefix(env.comps[c], "(Array Ref ") {
			continue
		}
		bs := bases[c]
		before := pre.get(c)
		alloc0 := pre.get("alloc")
		out = append(out, autoInv{label: "loopframe." + c, build: func(sc *SpecCtx) string {
			now := sc.st.get(c)
			if now == before {
				return "true"
			}
			conds := []string{fmt.Sprintf("(<= (rid r!l) %s)", alloc0)}
			seen := map[string]bool{}
			for _, b := range bs {
				v := fr.val(b)
				if !seen[v] {
					seen[v] = true
					conds = append(conds, fmt.Sprintf("(not (= r!l %s))", v))
				}
			}
			return fmt.Sprintf("(forall ((r!l Ref)) (! (=> %s (= (select %s r!l) (select %s r!l))) :pattern ((select %s r!l))))", andTerms(conds...), now, before, now)
		}})
	}
	return out
}

func (t *Trans) enterLoop(fr *Frame, lr *loopRec, reach string, pre State, phiPre map[*ssa.Phi]string) State {
	tags := fr.tags
	fname := fr.path
	// 1. invariants on entry
	var invs []*Clause
	if lr.spec != nil {
		invs = lr.spec.Invariants
	}
	// automatic frame invariants for the enclosing function's frame condition
	lr.autoInv = t.autoFrameInvariants(fr, lr)
	lr.autoInv = append(lr.autoInv, t.loopLocalFrames(fr, lr, pre)...)
	// range-over-slice loops: the hidden index stays within [-1, LENMAX) and the loop terminates
	var rangePhi *ssa.Phi
	for _, in := range lr.header.Instrs {
		if phi, ok := in.(*ssa.Phi); ok && phi.Comment == "rangeindex" {
			rangePhi = phi
		}
	}
	if rangePhi != nil {
		rp := rangePhi
		lr.autoInv = append(lr.autoInv, autoInv{label: "rangeindex", build: func(sc *SpecCtx) string {
			v := fr.vals[rp]
			if sc.phiOv != nil {
				if o, ok := sc.phiOv[rp]; ok {
					v = o
				}
			}
			return fmt.Sprintf("(and (bvsle #xffffffffffffffff %s) (bvslt %s LENMAX))", v, v)
		}})
		if lr.spec == nil {
			lr.spec = &LoopSpec{}
		}
		if lr.spec.Decreases == nil {
			lr.spec = &LoopSpec{Invariants: lr.spec.Invariants, Reveals: lr.spec.Reveals, Decreases: &Clause{Kind: "decreases", Expr: mustSx("(bvsub LENMAX rangeindex)"), Src: "auto"}}
		}
		if lr.spec != nil {
			invs = lr.spec.Invariants
		}
	}
	scPre := &SpecCtx{t: t, fr: fr, st: pre, old: fr.entrySt, at: lr.header, phiOv: phiPre}
	for _, inv := range invs {
		g := scPre.expandBool(inv.Expr)
		t.oblige("inv.init", fmt.Sprintf("%s#inv.init.%s@loop%d", fname, labelOr(inv.Label, "inv"), lr.ordinal), tagsOr(inv.Tags, tags), reach, g, lr.header.Instrs[0].Pos(), "loop invariant holds on entry")
	}
	for _, ai := range lr.autoInv {
		g := ai.build(scPre)
		t.oblige("inv.init", fmt.Sprintf("%s#inv.init.%s@loop%d", fname, ai.label, lr.ordinal), tags, reach, g, token.NoPos, "automatic frame invariant on entry")
	}
	// 2. havoc
	cur := pre
	w := t.loopWrites(fr, lr)
	if _, all := w["*"]; all {
		delete(w, "*")
		t.note("%s: loop %d may write any heap location: heap havocked at the loop head", fr.path, lr.ordinal)
		for _, c := range t.env.compOrd {
			if _, isGhost := t.P.ghostComps[c]; !strings.HasPrefix(c, "IT_") && !isGhost {
				w[c] = t.env.comps[c]
			}
		}
	}
	if _, gh := w["ghost*"]; gh {
		delete(w, "ghost*")
		for g, srt := range t.P.ghostComps {
			w[g] = srt
		}
	}
	ws := make([]string, 0, len(w))
	for c := range w {
		ws = append(ws, c)
	}
	sort.Strings(ws)
	for _, c := range ws {
		t.env.Comp(c, w[c])
		n := t.freshConst(w[c], c+"@L")
		cur = cur.set(c, n)
		if c == "alloc" {
			t.assume("true", fmt.Sprintf("(>= %s %s)", n, pre.get("alloc")))
		}
	}
	lr.phiH = map[*ssa.Phi]string{}
	for phi := range phiPre {
		n := t.freshConst(t.env.SortOf(phi.Type()), fr.name(phi))
		lr.phiH[phi] = n
		fr.vals[phi] = n
		t.assume("true", t.wfOf(n, phi.Type(), cur))
	}
	lr.stH = cur
	// 3. assume invariants at the (arbitrary) iteration
	scH := &SpecCtx{t: t, fr: fr, st: cur, old: fr.entrySt, at: lr.header}
	for _, inv := range invs {
		t.assume(reach, scH.expandBool(inv.Expr))
	}
	for _, ai := range lr.autoInv {
		t.assume(reach, ai.build(scH))
	}
	if lr.spec != nil {
		for _, rv := range lr.spec.Reveals {
			t.assume(reach, revealInstance(scH, rv))
		}
	}
	if lr.spec != nil && lr.spec.Decreases != nil {
		e := lr.spec.Decreases.Expr
		if e.Head() == "int" && len(e.List) == 2 {
			lr.measInt = true
			lr.measureH = t.define("Int", fr.id+"!meas", scH.expand(e.List[1]))
		} else {
			lr.measureH = t.define(sortBV64, fr.id+"!meas", scH.expand(e))
		}
	}
	return cur
}

func (t *Trans) closeLoop(fr *Frame, lr *loopRec, from *ssa.BasicBlock, edgeTerm string, st State) {
	tags := fr.tags
	fname := fr.path
	// values flowing along the back edge
	phiBack := map[*ssa.Phi]string{}
	for _, in := range lr.header.Instrs {
		phi, ok := in.(*ssa.Phi)
		if !ok {
			break
		}
		for pi, p := range lr.header.Preds {
			if p == from {
				phiBack[phi] = fr.val(phi.Edges[pi])
			}
		}
	}
	sc := &SpecCtx{t: t, fr: fr, st: st, old: fr.entrySt, at: lr.header, phiOv: phiBack}
	if lr.spec != nil {
		for _, inv := range lr.spec.Invariants {
			g := sc.expandBool(inv.Expr)
			t.oblige("inv.keep", fmt.Sprintf("%s#inv.keep.%s@loop%d", fname, labelOr(inv.Label, "inv"), lr.ordinal), tagsOr(inv.Tags, tags), edgeTerm, g, from.Instrs[len(from.Instrs)-1].Pos(), "loop invariant preserved by the body")
		}
	}
	for _, ai := range lr.autoInv {
		g := ai.build(sc)
		t.oblige("inv.keep", fmt.Sprintf("%s#inv.keep.%s@loop%d", fname, ai.label, lr.ordinal), tags, edgeTerm, g, token.NoPos, "automatic frame invariant preserved")
	}
	if lr.measureH != "" {
		e := lr.spec.Decreases.Expr
		var g string
		if lr.measInt {
			m := sc.expand(e.List[1])
			g = fmt.Sprintf("(and (< %s %s) (<= 0 %s))", m, lr.measureH, lr.measureH)
		} else {
			m := sc.expand(e)
			g = fmt.Sprintf("(and (bvslt %s %s) (bvsle #x0000000000000000 %s))", m, lr.measureH, lr.measureH)
		}
		t.oblige("dec", fmt.Sprintf("%s#dec@loop%d", fname, lr.ordinal), tagsOr(lr.spec.Decreases.Tags, append([]string{"C20"}, tags...)), edgeTerm, g, from.Instrs[len(from.Instrs)-1].Pos(), "loop measure decreases and is bounded below")
	} else if fr.top {
		t.note("loop %d of %s has no decreases clause: termination not proved", lr.ordinal, fname)
	}
}

func labelOr(l, d string) string {
	if l == "" {
		return d
	}
	return l
}

func tagsOr(a, b []string) []string {
	if len(a) > 0 {
		return a
	}
	return b
}

// autoFrameInvariants: inside a loop, pre-existing locations outside the function's modifies
// clause keep their entry values. Checked like any other invariant, so sound.
func (t *Trans) autoFrameInvariants(fr *Frame, lr *loopRec) []autoInv {
	if !fr.top {
		return nil
	}
	var out []autoInv
	w := t.loopWrites(fr, lr)
	ws := make([]string, 0, len(w))
	for c := range w {
		ws = append(ws, c)
	}
	sort.Strings(ws)
	for _, c := range ws {
		c := c
		sortc := w[c]
		if c == "*" || c == "ghost*" || c == "alloc" || !strings.HasPrefix(sortc, "(Array Ref ") {
			continue
		}
		if t.P.ghostComps[c] != "" {
			continue
		}
		out = append(out, autoInv{label: "frame." + c, build: func(sc *SpecCtx) string {
			return t.frameFormula(fr, c, sc.st.get(c), fr.entrySt.get(c), fr.entrySt.get("alloc"), sc)
		}})
	}
	return out
}

// frameFormula: forall r. rid(r) <= alloc0 && r not in modifies(c) => now[r] = before[r]
func (t *Trans) frameFormula(fr *Frame, comp, now, before, alloc0 string, sc *SpecCtx) string {
	if now == before {
		return "true"
	}
	var excl []string
	whole := false
	if fr.contract != nil {
		ex, wh := t.modifiesFor(fr.contract, comp, &SpecCtx{t: t, fr: fr, st: fr.entrySt, old: fr.entrySt}, "r!f")
		excl, whole = ex, wh
	}
	if whole {
		return "true"
	}
	conds := []string{fmt.Sprintf("(<= (rid r!f) %s)", alloc0)}
	for _, e := range excl {
		conds = append(conds, "(not "+e+")")
	}
	return fmt.Sprintf("(forall ((r!f Ref)) (! (=> %s (= (select %s r!f) (select %s r!f))) :pattern ((select %s r!f))))", andTerms(conds...), now, before, now)
}

// modifiesFor returns, for component comp, the list of conditions (over variable rv) describing
// locations the contract allows to change, and whether the whole component may change.
func (t *Trans) modifiesFor(c *Contract, comp string, sc *SpecCtx, rv string) (conds []string, whole bool) {
	_, compIsGhost := t.P.ghostComps[comp]
	for _, it := range c.Modifies {
		if it.IsAtom() {
			if it.Atom == comp || it.Atom == "everything" || (it.Atom == "ghost*" && compIsGhost) || (it.Atom == "heap*" && !compIsGhost) || (it.Atom == "docheap*" && isDocHeapComp(t.env, comp)) {
				return nil, true
			}
			continue
		}
		if it.Head() == "@" {
			if lc, idx, ok := sc.locationOf(it); ok && lc == comp {
				conds = append(conds, fmt.Sprintf("(= %s %s)", rv, idx))
			}
			continue
		}
		if len(it.List) == 0 || it.List[0].Atom != comp {
			continue
		}
		if len(it.List) == 1 {
			return nil, true
		}
		if len(it.List) == 4 && it.List[1].IsAtom() && it.List[1].Atom == "where" {
			// (X where (r) cond)
			v := it.List[2].List[0].Atom
			sub := sc.withBound(v, rv)
			conds = append(conds, sub.expandBool(it.List[3]))
			continue
		}
		for _, e := range it.List[1:] {
			conds = append(conds, fmt.Sprintf("(= %s %s)", rv, sc.expand(e)))
		}
	}
	return conds, false
}
