package main

import (
	"go/types"

	"golang.org/x/tools/go/ssa"
)

// Write-set analysis: which state components a function may assign (over-approximation,
// used to decide what a call or a loop havocs). "*" means everything.

func (P *Prog) declaredWrites(env *TypeEnv, c *Contract) map[string]string {
	out := map[string]string{}
	add := func(name string) {
		if name == "everything" {
			out["*"] = ""
			out["ghost*"] = ""
			return
		}
		if name == "heap*" {
			out["*"] = ""
			return
		}
		if name == "ghost*" {
			out["ghost*"] = ""
			return
		}
		if name == "docheap*" {
			for _, c := range docHeapComps(env) {
				out[c] = env.comps[c]
			}
			out["alloc"] = "Int"
			return
		}
		if s, ok := P.ghostComps[name]; ok {
			out[name] = s
		} else if s, ok := env.comps[name]; ok {
			out[name] = s
		} else if s, ok := P.knownComps[name]; ok {
			out[name] = s
		} else if s, ok := P.stateFunSorts[name]; ok {
			out[name] = s
		}
	}
	for _, it := range c.Modifies {
		if it.IsAtom() {
			add(it.Atom)
		} else if it.Head() == "@" && len(it.List) == 3 {
			if cst := findCast(it.List[1]); cst != nil {
				if typ := P.typeByName(cst.List[2].Atom); typ != nil {
					if st, ok := typ.Underlying().(*types.Struct); ok {
						for i := 0; i < st.NumFields(); i++ {
							if st.Field(i).Name() == it.List[2].Atom && !isStructType(st.Field(i).Type()) {
								if env.addrFields[env.fieldKey(typ, i)] {
									cn := env.cellComp(st.Field(i).Type())
									out[cn] = env.comps[cn]
								} else {
									cn := env.fieldComp(typ, i)
									out[cn] = env.comps[cn]
								}
							}
						}
					}
				}
			}
		} else if len(it.List) > 0 {
			add(it.List[0].Atom)
		}
	}
	for _, x := range c.Extra["writes"] {
		for _, a := range sxAtoms(x) {
			add(a)
		}
	}
	if len(c.Extra["allocates"]) > 0 {
		out["alloc"] = "Int"
	}
	return out
}

func (P *Prog) structLeafComps(env *TypeEnv, t types.Type, out map[string]string) {
	if !isStructType(t) {
		c := env.cellComp(t)
		out[c] = env.comps[c]
		return
	}
	st := t.Underlying().(*types.Struct)
	for i := 0; i < st.NumFields(); i++ {
		ft := st.Field(i).Type()
		if isStructType(ft) {
			P.structLeafComps(env, ft, out)
			continue
		}
		if env.addrFields[env.fieldKey(t, i)] {
			c := env.cellComp(ft)
			out[c] = env.comps[c]
		} else {
			c := env.fieldComp(t, i)
			out[c] = env.comps[c]
		}
	}
}

func (P *Prog) directWrites(env *TypeEnv, fn *ssa.Function, in ssa.Instruction, out map[string]string, callees *[]*ssa.Function) {
	switch x := in.(type) {
	case *ssa.Alloc:
		out["alloc"] = "Int"
		elem := x.Type().(*types.Pointer).Elem()
		if arr, ok := elem.Underlying().(*types.Array); ok {
			if b, ok := arr.Elem().Underlying().(*types.Basic); ok && b.Kind() == types.Uint8 {
				out[env.Comp("C_bytearr", "(Array Ref Str)")] = "(Array Ref Str)"
			}
			return
		}
		P.structLeafComps(env, elem, out)
	case *ssa.Store:
		elem := x.Addr.Type().Underlying().(*types.Pointer).Elem()
		if g, ok := x.Addr.(*ssa.Global); ok && P.immutable[g] {
			return
		}
		if ia, ok := x.Addr.(*ssa.IndexAddr); ok {
			if a, ok := ia.X.(*ssa.Alloc); ok {
				if arr, ok := a.Type().(*types.Pointer).Elem().Underlying().(*types.Array); ok {
					if b, ok := arr.Elem().Underlying().(*types.Basic); ok && b.Kind() == types.Uint8 {
						out[env.Comp("C_bytearr", "(Array Ref Str)")] = "(Array Ref Str)"
						return
					}
				}
			}
		}
		if isStructType(elem) {
			P.structLeafComps(env, elem, out)
			return
		}
		if fa, ok := x.Addr.(*ssa.FieldAddr); ok {
			st := fa.X.Type().Underlying().(*types.Pointer).Elem()
			if !env.addrFields[env.fieldKey(st, fa.Field)] {
				c := env.fieldComp(st, fa.Field)
				out[c] = env.comps[c]
				return
			}
		}
		c := env.cellComp(elem)
		out[c] = env.comps[c]
	case *ssa.MapUpdate:
		h, v, l := env.mapComps(x.Map.Type())
		out[h], out[v], out[l] = env.comps[h], env.comps[v], env.comps[l]
	case *ssa.MakeMap:
		out["alloc"] = "Int"
		h, _, l := env.mapComps(x.Type())
		out[h], out[l] = env.comps[h], env.comps[l]
	case *ssa.MakeSlice:
		out["alloc"] = "Int"
		if !isByteSlice(x.Type()) {
			elem := x.Type().Underlying().(*types.Slice).Elem()
			if !isStructType(elem) {
				c := env.cellComp(elem)
				out[c] = env.comps[c]
			}
		}
	case *ssa.MakeClosure:
		out["alloc"] = "Int"
	case *ssa.Call:
		P.callWrites(env, fn, x.Common(), out, callees)
	case *ssa.Defer:
		P.callWrites(env, fn, x.Common(), out, callees)
	case *ssa.Go:
		out["*"] = ""
	}
}

func (P *Prog) callWrites(env *TypeEnv, fn *ssa.Function, c *ssa.CallCommon, out map[string]string, callees *[]*ssa.Function) {
	merge := func(m map[string]string) {
		for k, v := range m {
			out[k] = v
		}
	}
	static := func(f *ssa.Function) {
		ct := P.ContractFor(f)
		if ct != nil && !ct.Inline && (ct.Trusted || f.Blocks == nil || !P.isClover(f)) {
			merge(P.declaredWrites(env, ct))
			return
		}
		if f.Blocks == nil || !P.isClover(f) {
			out["*"] = ""
			return
		}
		*callees = append(*callees, f)
	}
	if c.IsInvoke() {
		if mi, ok := c.Value.(*ssa.MakeInterface); ok {
			if f := P.prog.LookupMethod(mi.X.Type(), c.Method.Pkg(), c.Method.Name()); f != nil {
				static(f)
				return
			}
		}
		if ic := P.IfaceContract(c.Value.Type(), c.Method); ic != nil {
			merge(P.declaredWrites(env, ic))
			return
		}
		it := c.Value.Type().Underlying().(*types.Interface)
		impls := P.implementers(it)
		if len(impls) == 0 {
			out["*"] = ""
			return
		}
		for _, T := range impls {
			if f := P.prog.LookupMethod(T, c.Method.Pkg(), c.Method.Name()); f != nil {
				static(f)
			}
		}
		return
	}
	switch callee := c.Value.(type) {
	case *ssa.Builtin:
		switch callee.Name() {
		case "append":
			if isByteSlice(c.Args[0].Type()) {
				return
			}
			out["alloc"] = "Int"
			elem := c.Args[0].Type().Underlying().(*types.Slice).Elem()
			if isStructType(elem) {
				st := elem.Underlying().(*types.Struct)
				for i := 0; i < st.NumFields(); i++ {
					if !isStructType(st.Field(i).Type()) {
						cn := env.fieldComp(elem, i)
						out[cn] = env.comps[cn]
					}
				}
			} else {
				cn := env.cellComp(elem)
				out[cn] = env.comps[cn]
			}
		case "delete":
			h, _, l := env.mapComps(c.Args[0].Type())
			out[h], out[l] = env.comps[h], env.comps[l]
		case "copy":
			out["*"] = ""
		}
	case *ssa.Function:
		static(callee)
	case *ssa.MakeClosure:
		static(callee.Fn.(*ssa.Function))
	default:
		if p, ok := c.Value.(*ssa.Parameter); ok {
			if ct := P.ContractFor(fn); ct != nil {
				if cb := P.cs.ByKey[ct.Key+"@"+p.Name()]; cb != nil {
					merge(P.declaredWrites(env, cb))
					return
				}
			}
		}
		out["*"] = ""
		out["ghost*"] = ""
	}
}

// funcWrites: union of the direct writes of every function reachable from f through calls
// that are not cut by a trusted contract.
func (P *Prog) funcWrites(env *TypeEnv, f *ssa.Function) map[string]string {
	if m, ok := P.writesMemo[f]; ok {
		for k, v := range m {
			if k != "*" && k != "ghost*" {
				env.Comp(k, v)
			}
		}
		return m
	}
	out := map[string]string{}
	if P.writesBusy == nil {
		P.writesBusy = map[*ssa.Function]bool{}
	}
	P.writesBusy[f] = true
	seen := map[*ssa.Function]bool{f: true}
	work := []*ssa.Function{f}
	for len(work) > 0 {
		g := work[len(work)-1]
		work = work[:len(work)-1]
		var callees []*ssa.Function
		for _, b := range g.Blocks {
			for _, in := range b.Instrs {
				P.directWrites(env, g, in, out, &callees)
			}
		}
		for _, af := range g.AnonFuncs {
			_ = af
		}
		for _, c := range callees {
			if seen[c] {
				continue
			}
			seen[c] = true
			// a callee whose contract declares components unchanged as a whole (proved in its own verification,
			// obligation frame.unchanged.*) does not contribute them to its callers' write sets
			if ct := P.ContractFor(c); ct != nil && len(ct.Extra["unchanged"]) > 0 && !P.writesBusy[c] {
				skip := map[string]bool{}
				for _, x := range ct.Extra["unchanged"] {
					for _, a := range sxAtoms(x) {
						skip[a] = true
					}
				}
				for k, v := range P.funcWrites(env, c) {
					if !skip[k] {
						out[k] = v
					}
				}
				continue
			}
			work = append(work, c)
		}
	}
	delete(P.writesBusy, f)
	P.writesMemo[f] = out
	for k, v := range out {
		if k != "*" && k != "ghost*" {
			P.knownComps[k] = v
		}
	}
	return out
}

// instrWrites: writes of one instruction including its callees.
func (P *Prog) instrWrites(env *TypeEnv, fn *ssa.Function, in ssa.Instruction) map[string]string {
	out := map[string]string{}
	var callees []*ssa.Function
	P.directWrites(env, fn, in, out, &callees)
	for _, c := range callees {
		for k, v := range P.funcWrites(env, c) {
			out[k] = v
		}
	}
	return out
}

func findCast(x *Sx) *Sx {
	if x.IsAtom() {
		return nil
	}
	if x.Head() == "cast" && len(x.List) == 3 {
		return x
	}
	for _, y := range x.List {
		if c := findCast(y); c != nil {
			return c
		}
	}
	return nil
}

// docHeapComps: the part of the heap user callbacks may modify (assumption A13): the field maps and
// slices of documents. Clover's own objects (plan nodes, indexes, queries, metadata) are out of reach.
func docHeapComps(env *TypeEnv) []string {
	mt := types.NewMap(types.Typ[types.String], types.NewInterfaceType(nil, nil))
	h, v, l := env.mapComps(mt)
	out := []string{h, v, l}
	out = append(out, env.cellComp(types.NewInterfaceType(nil, nil)))
	return out
}

func isDocHeapComp(env *TypeEnv, name string) bool {
	for _, c := range docHeapComps(env) {
		if c == name {
			return true
		}
	}
	return name == "F_document_Document_fields"
}
