package main

import (
	"fmt"
	"go/types"
	"sort"
	"strings"
)

// TypeEnv maps Go types to SMT sorts and owns the generated declarations
// (struct datatypes, state components, type ids, string literals, globals).
type TypeEnv struct {
	tyIDs     map[string]int
	tyNames   []string
	structs   map[string]*structInfo
	structOrd []string
	comps     map[string]string // state component name -> sort
	compOrd   []string
	lits      map[string]string // string literal -> symbol
	litOrd    []string
	globals   map[string]string // immutable global symbol -> sort
	globalOrd []string
	extraDecl []string
	addrFields map[string]bool // struct.field whose address escapes: lives in cell memory
}

type structInfo struct {
	name   string // SMT datatype name
	st     *types.Struct
	fields []string // selector names
	sorts  []string
}

func NewTypeEnv() *TypeEnv {
	e := &TypeEnv{
		tyIDs:   map[string]int{},
		structs: map[string]*structInfo{},
		comps:   map[string]string{},
		lits:    map[string]string{},
		globals: map[string]string{},
		addrFields: map[string]bool{},
	}
	// well-known ids referenced by the prelude; keep in sync with prelude/base.smt2
	for i, n := range wellKnownTypes {
		e.tyIDs[n] = i + 1
		e.tyNames = append(e.tyNames, n)
	}
	return e
}

var wellKnownTypes = []string{
	"int", "int8", "int16", "int32", "int64",
	"uint", "uint8", "uint16", "uint32", "uint64", "uintptr",
	"float32", "float64", "string", "bool",
	"[]interface{}", "map[string]interface{}", "time.Time", "[]byte",
	"*github.com/ostafen/clover/v2/internal.LocalizedTime",
	"*github.com/ostafen/clover/v2/query.field",
	"*github.com/ostafen/clover/v2/query.UnaryCriteria",
	"*github.com/ostafen/clover/v2/query.BinaryCriteria",
	"*github.com/ostafen/clover/v2/query.NotCriteria",
	"func(*github.com/ostafen/clover/v2/document.Document) bool",
	"*github.com/ostafen/clover/v2/document.Document",
	"*errors.errorString",
	"[]string",
	"[]*github.com/ostafen/clover/v2/document.Document",
	"[]*github.com/ostafen/clover/v2/index.Info",
	"map[string]*github.com/ostafen/clover/v2/index.Range",
	"*github.com/ostafen/clover/v2.NotFlattenVisitor",
	"*github.com/ostafen/clover/v2.IndexSelectVisitor",
	"*github.com/ostafen/clover/v2.FieldRangeVisitor",
	"*github.com/ostafen/clover/v2.CriteriaNormalizeVisitor",
}

func tyKey(t types.Type) string {
	s := types.TypeString(t, nil)
	if s == "[]uint8" {
		return "[]byte"
	}
	if s == "any" {
		return "interface{}"
	}
	s = strings.ReplaceAll(s, "[]any", "[]interface{}")
	s = strings.ReplaceAll(s, "]any", "]interface{}")
	return s
}

func (e *TypeEnv) TyID(t types.Type) int {
	k := tyKey(t)
	if id, ok := e.tyIDs[k]; ok {
		return id
	}
	id := 100 + len(e.tyIDs)
	e.tyIDs[k] = id
	e.tyNames = append(e.tyNames, k)
	return id
}

func (e *TypeEnv) TyIDTerm(t types.Type) string {
	return fmt.Sprintf("%d", e.TyID(t))
}

const sortBV64 = "(_ BitVec 64)"
const sortF64 = "(_ FloatingPoint 11 53)"
const sortF32 = "(_ FloatingPoint 8 24)"

func isByteSlice(t types.Type) bool {
	if s, ok := t.Underlying().(*types.Slice); ok {
		if b, ok := s.Elem().Underlying().(*types.Basic); ok && (b.Kind() == types.Uint8) {
			return true
		}
	}
	return false
}

func isTimeType(t types.Type) bool {
	if n, ok := t.(*types.Named); ok {
		o := n.Obj()
		return o.Pkg() != nil && o.Pkg().Path() == "time" && o.Name() == "Time"
	}
	return false
}

func intWidth(b *types.Basic) (int, bool) { // width, signed
	switch b.Kind() {
	case types.Int, types.Int64, types.UntypedInt:
		return 64, true
	case types.Int8:
		return 8, true
	case types.Int16:
		return 16, true
	case types.Int32, types.UntypedRune:
		return 32, true
	case types.Uint, types.Uint64, types.Uintptr:
		return 64, false
	case types.Uint8:
		return 8, false
	case types.Uint16:
		return 16, false
	case types.Uint32:
		return 32, false
	}
	return 0, false
}

func isIntType(t types.Type) bool {
	b, ok := t.Underlying().(*types.Basic)
	return ok && b.Info()&types.IsInteger != 0
}

// SortOf returns the SMT sort used for values of Go type t.
func (e *TypeEnv) SortOf(t types.Type) string {
	if isTimeType(t) {
		return "Time"
	}
	switch u := t.Underlying().(type) {
	case *types.Basic:
		switch {
		case u.Info()&types.IsBoolean != 0:
			return "Bool"
		case u.Info()&types.IsInteger != 0:
			w, _ := intWidth(u)
			return fmt.Sprintf("(_ BitVec %d)", w)
		case u.Kind() == types.Float64 || u.Kind() == types.UntypedFloat:
			return sortF64
		case u.Kind() == types.Float32:
			return sortF32
		case u.Info()&types.IsString != 0:
			return "Str"
		case u.Kind() == types.UnsafePointer:
			return "Ref"
		case u.Kind() == types.UntypedNil:
			return "Val"
		}
	case *types.Pointer, *types.Map, *types.Chan:
		return "Ref"
	case *types.Signature:
		return "Func"
	case *types.Slice:
		if isByteSlice(t) {
			return "Bytes"
		}
		return "Slice"
	case *types.Interface:
		return "Val"
	case *types.Struct:
		return e.structSort(t, u)
	case *types.Array:
		return "Ref" // arrays are modelled by reference to their element block (only *array uses supported)
	case *types.Tuple:
		return "Tuple"
	}
	return "Opaque"
}

func (e *TypeEnv) structName(t types.Type) string {
	if n, ok := t.(*types.Named); ok {
		o := n.Obj()
		p := ""
		if o.Pkg() != nil {
			p = o.Pkg().Name() + "_"
		}
		return p + o.Name()
	}
	return "anon_" + smtSym(types.TypeString(t, nil))
}

func (e *TypeEnv) structSort(t types.Type, st *types.Struct) string {
	name := "S_" + e.structName(t)
	if _, ok := e.structs[name]; ok {
		return name
	}
	si := &structInfo{name: name, st: st}
	e.structs[name] = si // before recursion (no recursive by-value structs in Go anyway)
	for i := 0; i < st.NumFields(); i++ {
		f := st.Field(i)
		si.fields = append(si.fields, fmt.Sprintf("%s_%s", name, f.Name()))
		si.sorts = append(si.sorts, e.SortOf(f.Type()))
	}
	e.structOrd = append(e.structOrd, name)
	return name
}

func (e *TypeEnv) structInfoOf(t types.Type) *structInfo {
	st := t.Underlying().(*types.Struct)
	return e.structs[e.structSort(t, st)]
}

// Comp registers (or returns) a state component.
func (e *TypeEnv) Comp(name, sort string) string {
	if s, ok := e.comps[name]; ok {
		if s != sort {
			panic(fmt.Sprintf("component %s declared with sorts %s and %s", name, s, sort))
		}
		return name
	}
	e.comps[name] = sort
	e.compOrd = append(e.compOrd, name)
	return name
}

// fieldComp returns the state component holding field i of struct type t (non-struct fields only).
func (e *TypeEnv) fieldComp(t types.Type, i int) string {
	st := t.Underlying().(*types.Struct)
	f := st.Field(i)
	name := "F_" + e.structName(t) + "_" + f.Name()
	return e.Comp(name, fmt.Sprintf("(Array Ref %s)", e.SortOf(f.Type())))
}

func (e *TypeEnv) fieldKey(t types.Type, i int) string {
	st := t.Underlying().(*types.Struct)
	return e.structName(t) + "." + st.Field(i).Name()
}

func (e *TypeEnv) cellComp(t types.Type) string {
	name := "C_" + smtSym(tyKey(t))
	return e.Comp(name, fmt.Sprintf("(Array Ref %s)", e.SortOf(t)))
}

func (e *TypeEnv) mapComps(t types.Type) (has, val, ln string) {
	m := t.Underlying().(*types.Map)
	base := smtSym(tyKey(m))
	ks, vs := e.SortOf(m.Key()), e.SortOf(m.Elem())
	has = e.Comp("MH_"+base, fmt.Sprintf("(Array Ref (Array %s Bool))", ks))
	val = e.Comp("MV_"+base, fmt.Sprintf("(Array Ref (Array %s %s))", ks, vs))
	ln = e.Comp("ML_"+base, "(Array Ref (_ BitVec 64))")
	return
}

func (e *TypeEnv) Lit(s string) string {
	if s == "" {
		return "sempty"
	}
	if sym, ok := e.lits[s]; ok {
		return sym
	}
	sym := fmt.Sprintf("lit%d", len(e.lits))
	e.lits[s] = sym
	e.litOrd = append(e.litOrd, s)
	return sym
}

func (e *TypeEnv) Global(sym, sort string) string {
	if _, ok := e.globals[sym]; !ok {
		e.globals[sym] = sort
		e.globalOrd = append(e.globalOrd, sym)
	}
	return sym
}

// Zero returns the zero value term of Go type t.
func (e *TypeEnv) Zero(t types.Type) string {
	return e.zeroOfSort(e.SortOf(t), t)
}

func (e *TypeEnv) zeroOfSort(s string, t types.Type) string {
	switch s {
	case "Bool":
		return "false"
	case "Str":
		return "sempty"
	case "Bytes":
		return "bnil"
	case "Ref":
		return "null"
	case "Slice":
		return "nilslice"
	case "Val":
		return "vnil"
	case "Func":
		return "fnil"
	case "Time":
		return "timeZero"
	case sortF64:
		return "(_ +zero 11 53)"
	case sortF32:
		return "(_ +zero 8 24)"
	}
	if strings.HasPrefix(s, "(_ BitVec ") {
		var w int
		fmt.Sscanf(s, "(_ BitVec %d)", &w)
		return bvLit(0, w)
	}
	if strings.HasPrefix(s, "S_") {
		si := e.structs[s]
		if si.st.NumFields() == 0 {
			return "mk_" + s
		}
		parts := []string{"mk_" + s}
		for i := 0; i < si.st.NumFields(); i++ {
			parts = append(parts, e.Zero(si.st.Field(i).Type()))
		}
		return "(" + strings.Join(parts, " ") + ")"
	}
	return "opaqueZero"
}

func bvLit(v uint64, w int) string {
	if w%4 == 0 {
		return fmt.Sprintf("#x%0*x", w/4, v&mask(w))
	}
	return fmt.Sprintf("(_ bv%d %d)", v&mask(w), w)
}

func mask(w int) uint64 {
	if w >= 64 {
		return ^uint64(0)
	}
	return (uint64(1) << uint(w)) - 1
}

// Decls emits the generated declarations (after the base prelude).
func (e *TypeEnv) StructDecls() string {
	var b strings.Builder
	for _, n := range e.structOrd {
		si := e.structs[n]
		fmt.Fprintf(&b, "(declare-datatype %s ((mk_%s", n, n)
		for i, f := range si.fields {
			fmt.Fprintf(&b, " (%s %s)", f, si.sorts[i])
		}
		b.WriteString(")))\n")
	}
	return b.String()
}

func (e *TypeEnv) Decls() string {
	var b strings.Builder
	for _, g := range e.globalOrd {
		fmt.Fprintf(&b, "(declare-const %s %s)\n", g, e.globals[g])
	}
	for _, d := range e.extraDecl {
		b.WriteString(d)
		b.WriteByte('\n')
	}
	return b.String()
}

func (e *TypeEnv) LitDecls() string {
	var b strings.Builder
	// literals that extend other literals: register the remainders first (bounded: only one round)
	type split struct{ whole, pre, rest string }
	var splits []split
	base := append([]string{}, e.litOrd...)
	for _, w := range base {
		for _, p := range base {
			if p != w && p != "" && strings.HasPrefix(w, p) {
				rest := w[len(p):]
				e.Lit(rest)
				splits = append(splits, split{w, p, rest})
			}
		}
	}
	// string literals: distinct constants with known lengths
	for _, s := range e.litOrd {
		sym := e.lits[s]
		fmt.Fprintf(&b, "(declare-const %s Str) ; %q\n", sym, s)
		fmt.Fprintf(&b, "(assert (= (slen %s) %s))\n", sym, bvLit(uint64(len(s)), 64))
	}
	if len(e.litOrd) > 0 {
		b.WriteString("(assert (distinct sempty")
		for _, s := range e.litOrd {
			b.WriteString(" " + e.lits[s])
		}
		b.WriteString("))\n")
	}
	for _, sp := range splits {
		fmt.Fprintf(&b, "(assert (= %s (scat %s %s))) ; %q = %q + %q\n", e.lits[sp.whole], e.lits[sp.pre], e.lits[sp.rest], sp.whole, sp.pre, sp.rest)
	}
	return b.String()
}

func (e *TypeEnv) TypeTable() string {
	ks := make([]string, 0, len(e.tyIDs))
	for k := range e.tyIDs {
		ks = append(ks, k)
	}
	sort.Slice(ks, func(i, j int) bool { return e.tyIDs[ks[i]] < e.tyIDs[ks[j]] })
	var b strings.Builder
	for _, k := range ks {
		fmt.Fprintf(&b, "; type %d = %s\n", e.tyIDs[k], k)
	}
	return b.String()
}
