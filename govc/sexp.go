package main

import (
	"fmt"
	"strings"
)

// Sx is an S-expression: an atom (List == nil && IsAtom) or a list.
type Sx struct {
	Atom string
	List []*Sx
	IsL  bool
}

func A(s string) *Sx      { return &Sx{Atom: s} }
func L(xs ...*Sx) *Sx     { return &Sx{List: xs, IsL: true} }
func (s *Sx) IsAtom() bool { return !s.IsL }
func (s *Sx) Head() string {
	if s.IsL && len(s.List) > 0 && s.List[0].IsAtom() {
		return s.List[0].Atom
	}
	return ""
}

func (s *Sx) String() string {
	if s == nil {
		return "<nil>"
	}
	if !s.IsL {
		return s.Atom
	}
	var b strings.Builder
	s.write(&b)
	return b.String()
}

func (s *Sx) write(b *strings.Builder) {
	if !s.IsL {
		b.WriteString(s.Atom)
		return
	}
	b.WriteByte('(')
	for i, x := range s.List {
		if i > 0 {
			b.WriteByte(' ')
		}
		x.write(b)
	}
	b.WriteByte(')')
}

// tokenizer for contract text and prelude files.
type sxTok struct {
	s   string
	pos int
}

func tokenizeSx(src string) ([]string, error) {
	var toks []string
	i := 0
	for i < len(src) {
		c := src[i]
		switch {
		case c == ' ' || c == '\t' || c == '\n' || c == '\r':
			i++
		case c == ';': // comment to end of line
			for i < len(src) && src[i] != '\n' {
				i++
			}
		case c == '(' || c == ')':
			toks = append(toks, string(c))
			i++
		case c == '"':
			j := i + 1
			for j < len(src) {
				if src[j] == '"' {
					if j+1 < len(src) && src[j+1] == '"' {
						j += 2
						continue
					}
					break
				}
				j++
			}
			if j >= len(src) {
				return nil, fmt.Errorf("unterminated string literal")
			}
			toks = append(toks, src[i:j+1])
			i = j + 1
		case c == '|':
			j := i + 1
			for j < len(src) && src[j] != '|' {
				j++
			}
			if j >= len(src) {
				return nil, fmt.Errorf("unterminated |symbol|")
			}
			toks = append(toks, src[i:j+1])
			i = j + 1
		default:
			j := i
			for j < len(src) && !strings.ContainsRune(" \t\n\r();", rune(src[j])) {
				j++
			}
			toks = append(toks, src[i:j])
			i = j
		}
	}
	return toks, nil
}

// parseOne parses one S-expression starting at toks[i]; returns it and the next index.
func parseOne(toks []string, i int) (*Sx, int, error) {
	if i >= len(toks) {
		return nil, i, fmt.Errorf("unexpected end of input")
	}
	t := toks[i]
	if t == ")" {
		return nil, i, fmt.Errorf("unexpected )")
	}
	if t != "(" {
		return A(t), i + 1, nil
	}
	i++
	l := &Sx{IsL: true}
	for {
		if i >= len(toks) {
			return nil, i, fmt.Errorf("missing )")
		}
		if toks[i] == ")" {
			return l, i + 1, nil
		}
		x, ni, err := parseOne(toks, i)
		if err != nil {
			return nil, ni, err
		}
		l.List = append(l.List, x)
		i = ni
	}
}

func parseSx(src string) (*Sx, error) {
	toks, err := tokenizeSx(src)
	if err != nil {
		return nil, err
	}
	x, n, err := parseOne(toks, 0)
	if err != nil {
		return nil, err
	}
	if n != len(toks) {
		return nil, fmt.Errorf("trailing tokens after expression: %v", toks[n:])
	}
	return x, nil
}

func parseAllSx(src string) ([]*Sx, error) {
	toks, err := tokenizeSx(src)
	if err != nil {
		return nil, err
	}
	var out []*Sx
	i := 0
	for i < len(toks) {
		x, n, err := parseOne(toks, i)
		if err != nil {
			return nil, err
		}
		out = append(out, x)
		i = n
	}
	return out, nil
}

func mustSx(src string) *Sx {
	x, err := parseSx(src)
	if err != nil {
		panic(fmt.Sprintf("bad sexp %q: %v", src, err))
	}
	return x
}

// smtSym makes a string safe as an SMT-LIB simple symbol.
func smtSym(s string) string {
	var b strings.Builder
	for _, r := range s {
		switch {
		case r >= 'a' && r <= 'z', r >= 'A' && r <= 'Z', r >= '0' && r <= '9', r == '_', r == '.', r == '!', r == '$':
			b.WriteRune(r)
		case r == '*':
			b.WriteString("P")
		case r == '/':
			b.WriteString(".")
		case r == '(' || r == ')':
		case r == '[':
			b.WriteString("L")
		case r == ']':
			b.WriteString("J")
		case r == '{' || r == '}':
			b.WriteString("B")
		case r == ' ':
		default:
			b.WriteString("_")
		}
	}
	return b.String()
}
