package main

import (
	"fmt"
	"go/constant"
	"go/token"
	"go/types"
	"math"
	"strings"

	"golang.org/x/tools/go/ssa"
)

const zero64 = "#x0000000000000000"

// val returns the SMT term of an SSA value in this frame.
func (fr *Frame) val(v ssa.Value) string {
	t := fr.t
	switch x := v.(type) {
	case *ssa.Const:
		return t.constTerm(x)
	case *ssa.Global:
		return fmt.Sprintf("(obj (- %d))", t.globalID(x))
	case *ssa.Function:
		return fmt.Sprintf("(fclo %d null)", t.fnID(x))
	case *ssa.FreeVar:
		for i, fv := range fr.fn.FreeVars {
			if fv == x && i < len(fr.freeVars) {
				return fr.freeVars[i]
			}
		}
		t.errorf("%s: unbound free variable %s", fr.path, x.Name())
		return "null"
	case *ssa.Builtin:
		return "fnil"
	}
	if s, ok := fr.vals[v]; ok {
		return s
	}
	t.errorf("%s: value %s (%T) used before definition", fr.path, v.Name(), v)
	return "undefined!" + smtSym(v.Name())
}

var globalIDs = map[string]int{}

func (t *Trans) globalID(g *ssa.Global) int {
	k := g.String()
	if id, ok := globalIDs[k]; ok {
		return id
	}
	id := len(globalIDs) + 1
	globalIDs[k] = id
	return id
}

func (t *Trans) constTerm(c *ssa.Const) string {
	typ := c.Type()
	sort := t.env.SortOf(typ)
	if c.Value == nil {
		return t.env.Zero(typ)
	}
	switch {
	case sort == "Bool":
		if constant.BoolVal(c.Value) {
			return "true"
		}
		return "false"
	case strings.HasPrefix(sort, "(_ BitVec "):
		var w int
		fmt.Sscanf(sort, "(_ BitVec %d)", &w)
		if i, ok := constant.Int64Val(constant.ToInt(c.Value)); ok {
			return bvLit(uint64(i), w)
		}
		u, _ := constant.Uint64Val(constant.ToInt(c.Value))
		return bvLit(u, w)
	case sort == sortF64:
		f, _ := constant.Float64Val(c.Value)
		return f64Lit(f)
	case sort == sortF32:
		f, _ := constant.Float64Val(c.Value)
		return fmt.Sprintf("((_ to_fp 8 24) RNE %s)", f64Lit(f))
	case sort == "Str":
		return t.env.Lit(constant.StringVal(c.Value))
	}
	t.note("constant of unsupported type %s abstracted", typ)
	return t.freshConst(sort, "const")
}

func f64Lit(f float64) string {
	b := math.Float64bits(f)
	return fmt.Sprintf("(fp #b%01b #b%011b #b%052b)", b>>63, (b>>52)&0x7ff, b&((1<<52)-1))
}

// wfOf returns the well-formedness assumption for a value of Go type typ.
func (t *Trans) wfOf(term string, typ types.Type, st State) string {
	switch t.env.SortOf(typ) {
	case "Ref":
		return fmt.Sprintf("(<= (rid %s) %s)", term, st.get("alloc"))
	case "Slice":
		return fmt.Sprintf("(and (slice_wf %s) (<= (rid (sbase %s)) %s))", term, term, st.get("alloc"))
	case "Val":
		return fmt.Sprintf("(val_wf %s %s)", term, st.get("alloc"))
	case "Func":
		return fmt.Sprintf("(<= (rid (fenv %s)) %s)", term, st.get("alloc"))
	case "Str":
		return fmt.Sprintf("(bvult (slen %s) LENMAX)", term)
	case "Bytes":
		return fmt.Sprintf("(bvult (blen %s) LENMAX)", term)
	}
	if si, ok := t.env.structs[t.env.SortOf(typ)]; ok {
		var parts []string
		for i := 0; i < si.st.NumFields(); i++ {
			w := t.wfOf(fmt.Sprintf("(%s %s)", si.fields[i], term), si.st.Field(i).Type(), st)
			if w != "true" {
				parts = append(parts, w)
			}
		}
		return andTerms(parts...)
	}
	return "true"
}

// ---------------------------------------------------------------------------------
// memory

func isStructType(typ types.Type) bool {
	if isTimeType(typ) {
		return false
	}
	_, ok := typ.Underlying().(*types.Struct)
	return ok
}

// locOf: state component and index of the scalar location addressed by addr.
func (t *Trans) locOf(fr *Frame, addr ssa.Value, addrTerm string, elem types.Type) (comp, index string) {
	if fa, ok := addr.(*ssa.FieldAddr); ok {
		st := fa.X.Type().Underlying().(*types.Pointer).Elem()
		if !t.env.addrFields[t.env.fieldKey(st, fa.Field)] {
			return t.env.fieldComp(st, fa.Field), fr.val(fa.X)
		}
	}
	return t.env.cellComp(elem), addrTerm
}

// loadFrom reads a value of type elem at address addrTerm (addr may be nil when only the term is known).
func (t *Trans) loadFrom(fr *Frame, addr ssa.Value, addrTerm string, elem types.Type, st State) string {
	if isStructType(elem) {
		sname := t.env.SortOf(elem)
		stt := elem.Underlying().(*types.Struct)
		if stt.NumFields() == 0 {
			return "mk_" + sname
		}
		parts := []string{"mk_" + sname}
		for i := 0; i < stt.NumFields(); i++ {
			parts = append(parts, t.loadField(addrTerm, elem, i, st))
		}
		return "(" + strings.Join(parts, " ") + ")"
	}
	var comp, index string
	if addr != nil {
		comp, index = t.locOf(fr, addr, addrTerm, elem)
	} else {
		comp, index = t.env.cellComp(elem), addrTerm
	}
	return fmt.Sprintf("(select %s %s)", st.get(comp), index)
}

// loadField reads field i of the struct of type styp at address base.
func (t *Trans) loadField(base string, styp types.Type, i int, st State) string {
	stt := styp.Underlying().(*types.Struct)
	ft := stt.Field(i).Type()
	if isStructType(ft) {
		return t.loadFrom(nil, nil, fmt.Sprintf("(fld %s %d)", base, i), ft, st)
	}
	if t.env.addrFields[t.env.fieldKey(styp, i)] {
		return fmt.Sprintf("(select %s (fld %s %d))", st.get(t.env.cellComp(ft)), base, i)
	}
	return fmt.Sprintf("(select %s %s)", st.get(t.env.fieldComp(styp, i)), base)
}

func (t *Trans) storeTo(fr *Frame, addr ssa.Value, addrTerm string, elem types.Type, val string, st State) State {
	if isStructType(elem) {
		si := t.env.structInfoOf(elem)
		stt := elem.Underlying().(*types.Struct)
		for i := 0; i < stt.NumFields(); i++ {
			st = t.storeField(addrTerm, elem, i, fmt.Sprintf("(%s %s)", si.fields[i], val), st)
		}
		return st
	}
	var comp, index string
	if addr != nil {
		comp, index = t.locOf(fr, addr, addrTerm, elem)
	} else {
		comp, index = t.env.cellComp(elem), addrTerm
	}
	n := t.define(t.env.comps[comp], comp+"@s", fmt.Sprintf("(store %s %s %s)", st.get(comp), index, val))
	return st.set(comp, n)
}

func (t *Trans) storeField(base string, styp types.Type, i int, val string, st State) State {
	stt := styp.Underlying().(*types.Struct)
	ft := stt.Field(i).Type()
	if isStructType(ft) {
		return t.storeTo(nil, nil, fmt.Sprintf("(fld %s %d)", base, i), ft, val, st)
	}
	var comp, index string
	if t.env.addrFields[t.env.fieldKey(styp, i)] {
		comp, index = t.env.cellComp(ft), fmt.Sprintf("(fld %s %d)", base, i)
	} else {
		comp, index = t.env.fieldComp(styp, i), base
	}
	n := t.define(t.env.comps[comp], comp+"@s", fmt.Sprintf("(store %s %s %s)", st.get(comp), index, val))
	return st.set(comp, n)
}

// newObject allocates a fresh object id and returns its reference.
func (t *Trans) newObject(fr *Frame, hint string) string {
	a := fr.st.get("alloc")
	na := t.define("Int", "alloc", fmt.Sprintf("(+ %s 1)", a))
	fr.st = fr.st.set("alloc", na)
	return t.define("Ref", hint, fmt.Sprintf("(obj %s)", na))
}

// ---------------------------------------------------------------------------------
// safety obligations

func (t *Trans) safe(fr *Frame, what string, goal string, pos token.Pos) {
	if goal == "true" {
		return
	}
	t.oblige("safe", fmt.Sprintf("%s#safe.%s", fr.path, what), []string{"C20"}, fr.curReach, goal, pos, "no run-time panic: "+what)
}

func (fr *Frame) nonNullSyntactic(v ssa.Value) bool {
	switch x := v.(type) {
	case *ssa.Alloc, *ssa.MakeMap, *ssa.MakeClosure, *ssa.Global, *ssa.FieldAddr, *ssa.IndexAddr, *ssa.MakeSlice, *ssa.Function:
		return true
	case *ssa.Parameter:
		// receivers and pointer parameters are non-nil by the (checked) default precondition
		if fr.contract != nil {
			for _, n := range fr.contract.Extra["nullable"] {
				for _, a := range sxAtoms(n) {
					if a == x.Name() {
						return false
					}
				}
			}
		}
		return false
	case *ssa.FreeVar:
		return true
	}
	return false
}

func (t *Trans) safeDeref(fr *Frame, v ssa.Value, pos token.Pos) {
	if fr.nonNullSyntactic(v) {
		return
	}
	t.safe(fr, "nil-deref."+smtSym(v.Name()), fmt.Sprintf("(not (= %s null))", fr.val(v)), pos)
}

// ---------------------------------------------------------------------------------
// instructions

func (t *Trans) execInstr(fr *Frame, in ssa.Instruction) {
	env := t.env
	switch x := in.(type) {
	case *ssa.DebugRef:
		return
	case *ssa.Alloc:
		elem := x.Type().(*types.Pointer).Elem()
		if arr, ok := elem.Underlying().(*types.Array); ok {
			if b, ok := arr.Elem().Underlying().(*types.Basic); ok && b.Kind() == types.Uint8 {
				fr.bytearr[x] = true
			}
		}
		r := t.newObject(fr, fr.name(x))
		fr.vals[x] = r
		if fr.bytearr[x] {
			c := env.Comp("C_bytearr", "(Array Ref Str)")
			fr.st = fr.st.set(c, t.define(env.comps[c], c+"@s", fmt.Sprintf("(store %s %s sempty)", fr.st.get(c), r)))
			return
		}
		if _, isArr := elem.Underlying().(*types.Array); isArr {
			return // element cells are written explicitly by the stores that follow
		}
		fr.st = t.storeTo(fr, nil, r, elem, env.Zero(elem), fr.st)
	case *ssa.Store:
		elem := x.Addr.Type().Underlying().(*types.Pointer).Elem()
		if ia, ok := x.Addr.(*ssa.IndexAddr); ok {
			if a, ok := ia.X.(*ssa.Alloc); ok && fr.bytearr[a] {
				c := env.Comp("C_bytearr", "(Array Ref Str)")
				arr := a.Type().(*types.Pointer).Elem().Underlying().(*types.Array)
				if arr.Len() != 1 {
					t.note("byte array of length %d abstracted", arr.Len())
					fr.st = fr.st.set(c, t.freshConst(env.comps[c], c+"@hv"))
					return
				}
				fr.st = fr.st.set(c, t.define(env.comps[c], c+"@s", fmt.Sprintf("(store %s %s (sbyte1 %s))", fr.st.get(c), fr.val(a), fr.val(x.Val))))
				return
			}
		}
		t.safeDeref(fr, x.Addr, x.Pos())
		if fa, ok := x.Addr.(*ssa.FieldAddr); ok {
			if _, isFn := elem.Underlying().(*types.Signature); isFn {
				st := fa.X.Type().Underlying().(*types.Pointer).Elem()
				if cb := t.P.cbField(st, fa.Field); cb != nil {
					if c, isConst := x.Val.(*ssa.Const); !isConst || c.Value != nil {
						t.cbRefine(fr, cb, x.Val, "store."+st.Underlying().(*types.Struct).Field(fa.Field).Name(), x.Pos())
					}
				}
			}
		}
		if g, ok := x.Addr.(*ssa.Global); ok && t.P.immutable[g] {
			return // initialisation of an immutable global (only inside init)
		}
		if ia, ok := x.Addr.(*ssa.IndexAddr); ok {
			t.assertStore(fr, "slice", fr.val(x.Val), x.Val.Type(), fr.val(ia.Index), ia.Index.Type(), x.Pos())
		}
		fr.st = t.storeTo(fr, x.Addr, fr.val(x.Addr), elem, fr.val(x.Val), fr.st)
	case *ssa.UnOp:
		t.execUnOp(fr, x)
	case *ssa.BinOp:
		fr.vals[x] = t.define(env.SortOf(x.Type()), fr.name(x), t.binop(fr, x))
	case *ssa.Phi:
		return
	case *ssa.ChangeType:
		fr.vals[x] = fr.val(x.X)
		if ci, ok := fr.closures[x.X]; ok {
			fr.closures[x] = ci
		}
	case *ssa.ChangeInterface:
		fr.vals[x] = fr.val(x.X)
	case *ssa.Convert:
		fr.vals[x] = t.define(env.SortOf(x.Type()), fr.name(x), t.convert(fr, x))
	case *ssa.MakeInterface:
		// interfaces declared in the clover packages never hold a nil pointer: checked here, where the
		// interface value is made, and assumed where a method is invoked on it
		if t.P.cloverIface(x.Type()) {
			if _, isPtr := x.X.Type().Underlying().(*types.Pointer); isPtr && !fr.nonNullSyntactic(x.X) {
				t.safe(fr, "boxed-nil."+smtSym(x.Name()), fmt.Sprintf("(not (= %s null))", fr.val(x.X)), x.Pos())
			}
		}
		fr.vals[x] = t.define("Val", fr.name(x), t.box(fr.val(x.X), x.X.Type()))
		if ci, ok := fr.closures[x.X]; ok {
			fr.closures[x] = ci
		}
	case *ssa.TypeAssert:
		t.execTypeAssert(fr, x)
	case *ssa.Extract:
		tup, ok := fr.tuples[x.Tuple]
		if !ok || x.Index >= len(tup) {
			t.errorf("%s: extract from unknown tuple %s", fr.path, x.Tuple.Name())
			fr.vals[x] = t.freshConst(env.SortOf(x.Type()), fr.name(x))
			return
		}
		fr.vals[x] = tup[x.Index]
	case *ssa.Field:
		si := env.structInfoOf(x.X.Type())
		fr.vals[x] = t.define(env.SortOf(x.Type()), fr.name(x), fmt.Sprintf("(%s %s)", si.fields[x.Field], fr.val(x.X)))
	case *ssa.FieldAddr:
		t.safeDeref(fr, x.X, x.Pos())
		fr.vals[x] = t.define("Ref", fr.name(x), fmt.Sprintf("(fld %s %d)", fr.val(x.X), x.Field))
	case *ssa.IndexAddr:
		t.execIndexAddr(fr, x)
	case *ssa.Index:
		t.note("%s: Index on array value abstracted", fr.path)
		fr.vals[x] = t.freshConst(env.SortOf(x.Type()), fr.name(x))
	case *ssa.Lookup:
		t.execLookup(fr, x)
	case *ssa.MapUpdate:
		t.execMapUpdate(fr, x)
	case *ssa.MakeMap:
		r := t.newObject(fr, fr.name(x))
		fr.vals[x] = r
		has, _, ln := env.mapComps(x.Type())
		m := x.Type().Underlying().(*types.Map)
		fr.st = fr.st.set(has, t.define(env.comps[has], has+"@s", fmt.Sprintf("(store %s %s ((as const (Array %s Bool)) false))", fr.st.get(has), r, env.SortOf(m.Key()))))
		fr.st = fr.st.set(ln, t.define(env.comps[ln], ln+"@s", fmt.Sprintf("(store %s %s %s)", fr.st.get(ln), r, zero64)))
	case *ssa.MakeSlice:
		t.execMakeSlice(fr, x)
	case *ssa.Slice:
		t.execSlice(fr, x)
	case *ssa.MakeClosure:
		fn := x.Fn.(*ssa.Function)
		var binds []string
		for _, b := range x.Bindings {
			binds = append(binds, fr.val(b))
		}
		r := t.newObject(fr, fr.name(x)+"env")
		fr.vals[x] = t.define("Func", fr.name(x), fmt.Sprintf("(fclo %d %s)", t.fnID(fn), r))
		ci := &closureInfo{fn: fn, bindings: binds, finals: map[int]string{}}
		for i, fv := range fn.FreeVars {
			if t.P.finalFV[fv] && i < len(x.Bindings) {
				if pt, ok := fv.Type().(*types.Pointer); ok {
					if pfv, isFV := x.Bindings[i].(*ssa.FreeVar); isFV {
						for j, f2 := range fr.fn.FreeVars {
							if f2 == pfv {
								if v, ok := fr.fvFinal[j]; ok {
									ci.finals[i] = v
								}
							}
						}
						continue
					}
					ci.finals[i] = t.define(env.SortOf(pt.Elem()), fr.name(x)+"fv", t.loadFrom(fr, nil, binds[i], pt.Elem(), fr.st))
				}
			}
		}
		fr.closures[x] = ci
	case *ssa.Range:
		t.execRange(fr, x)
	case *ssa.Next:
		t.execNext(fr, x)
	case *ssa.Call:
		res := t.execCall(fr, x.Common(), x, x.Pos())
		sig := x.Common().Signature()
		switch sig.Results().Len() {
		case 0:
		case 1:
			if len(res) == 1 {
				fr.vals[x] = res[0]
			}
		default:
			fr.tuples[x] = res
		}
	case *ssa.Defer:
		fr.defers = append(fr.defers, deferInfo{x, fr.curBlock})
	case *ssa.RunDefers:
		for i := len(fr.defers) - 1; i >= 0; i-- {
			d := fr.defers[i]
			guard, ok := fr.reach[d.block]
			if !ok || !blockReaches(d.block, fr.curBlock) {
				continue
			}
			if fr.loops != nil {
				for _, lr := range fr.loops {
					if lr.body[d.block] {
						t.errorf("%s: defer inside a loop is not supported", fr.path)
					}
				}
			}
			saveReach := fr.curReach
			pre := fr.st
			fr.curReach = t.define("Bool", fr.id+"!dg", andTerms(saveReach, guard))
			t.execCall(fr, d.instr.Common(), nil, d.instr.Pos())
			post := fr.st
			fr.curReach = saveReach
			// the deferred call happened only if the defer statement was executed
			if !d.block.Dominates(fr.curBlock) {
				fr.st = t.mergeStates([]inEdge{{0, nil, guard, post}, {1, nil, "true", pre}}, "defer")
			}
		}
	case *ssa.If:
		c := fr.val(x.Cond)
		b := fr.curBlock
		fr.edge[[3]int{b.Index, b.Succs[0].Index, 0}] = t.define("Bool", fmt.Sprintf("%s!e%d_%d", fr.id, b.Index, b.Succs[0].Index), andTerms(fr.curReach, c))
		fr.edge[[3]int{b.Index, b.Succs[1].Index, 1}] = t.define("Bool", fmt.Sprintf("%s!e%d_%d", fr.id, b.Index, b.Succs[1].Index), andTerms(fr.curReach, "(not "+c+")"))
	case *ssa.Jump:
		b := fr.curBlock
		fr.edge[[3]int{b.Index, b.Succs[0].Index, 0}] = fr.curReach
	case *ssa.Return:
		var rs []string
		for _, r := range x.Results {
			rs = append(rs, fr.val(r))
		}
		fr.rets = append(fr.rets, retInfo{fr.curReach, rs, fr.st})
	case *ssa.Panic:
		t.safe(fr, "explicit-panic", "false", x.Pos())
	default:
		t.errorf("%s: unsupported instruction %T (%s)", fr.path, in, in)
	}
}

func (t *Trans) execUnOp(fr *Frame, x *ssa.UnOp) {
	env := t.env
	switch x.Op {
	case token.MUL: // load
		elem := x.Type()
		if g, ok := x.X.(*ssa.Global); ok && t.P.immutable[g] {
			if _, isMap := t.P.globalMaps[g]; isMap {
				fr.gmaps[x] = g
				fr.vals[x] = "(obj (- " + fmt.Sprint(2000+t.globalID(g)) + "))"
				return
			}
			fr.vals[x] = t.immutableGlobal(g)
			return
		}
		if g, ok := x.X.(*ssa.Global); ok && t.P.libSentinel(g) {
			fr.vals[x] = t.libSentinelTerm(g)
			return
		}
		if fv, ok := x.X.(*ssa.FreeVar); ok {
			for i, f2 := range fr.fn.FreeVars {
				if f2 == fv {
					if v, ok := fr.fvFinal[i]; ok {
						fr.vals[x] = v
						return
					}
				}
			}
		}
		t.safeDeref(fr, x.X, x.Pos())
		v := t.define(env.SortOf(elem), fr.name(x), t.loadFrom(fr, x.X, fr.val(x.X), elem, fr.st))
		fr.vals[x] = v
		wfSt := fr.st
		if !isStructType(elem) {
			// a value read from a component that was never written since entry existed at entry
			if comp, _ := t.locOf(fr, x.X, fr.val(x.X), elem); fr.st.get(comp) == comp+"@0" {
				wfSt = State{}
			}
		}
		t.assume(fr.curReach, t.wfOf(v, elem, wfSt))
	case token.NOT:
		fr.vals[x] = t.define("Bool", fr.name(x), "(not "+fr.val(x.X)+")")
	case token.SUB:
		s := env.SortOf(x.Type())
		if s == sortF64 || s == sortF32 {
			fr.vals[x] = t.define(s, fr.name(x), "(fp.neg "+fr.val(x.X)+")")
		} else {
			fr.vals[x] = t.define(s, fr.name(x), "(bvneg "+fr.val(x.X)+")")
		}
	case token.XOR:
		fr.vals[x] = t.define(env.SortOf(x.Type()), fr.name(x), "(bvnot "+fr.val(x.X)+")")
	default:
		t.errorf("%s: unsupported unary operator %s", fr.path, x.Op)
		fr.vals[x] = t.freshConst(env.SortOf(x.Type()), fr.name(x))
	}
}

// immutableGlobal: a package-level variable never assigned outside init is a constant.
func (t *Trans) immutableGlobal(g *ssa.Global) string {
	elem := g.Type().(*types.Pointer).Elem()
	sym := "G_" + smtSym(g.Pkg.Pkg.Name()+"_"+g.Name())
	if _, ok := t.env.globals[sym]; ok {
		return sym
	}
	t.env.Global(sym, t.env.SortOf(elem))
	// error sentinels created with errors.New in init: non-nil, pairwise distinct pointers
	if iv, ok := t.P.globalInit[g]; ok {
		if call, ok := iv.(*ssa.Call); ok {
			if f := call.Common().StaticCallee(); f != nil && f.String() == "errors.New" {
				id := t.globalID(g)
				t.env.extraDecl = append(t.env.extraDecl, fmt.Sprintf("(assert (= %s (vref TY_errorString (obj (- %d)))))", sym, 1000+id))
			}
		}
	}
	return sym
}

// libSentinel: an exported error variable "Err..." of a library package. Assumed never reassigned (A17): its value
// is a fixed non-nil error.
func (P *Prog) libSentinel(g *ssa.Global) bool {
	if g.Pkg == nil || strings.HasPrefix(g.Pkg.Pkg.Path(), modPath) || !strings.HasPrefix(g.Name(), "Err") {
		return false
	}
	pt, ok := g.Type().(*types.Pointer)
	return ok && types.Identical(pt.Elem(), types.Universe.Lookup("error").Type())
}

func (t *Trans) libSentinelTerm(g *ssa.Global) string {
	sym := "GX_" + smtSym(g.Pkg.Pkg.Name()+"_"+g.Name())
	if _, ok := t.env.globals[sym]; ok {
		return sym
	}
	t.env.Global(sym, "Val")
	t.env.extraDecl = append(t.env.extraDecl, fmt.Sprintf("(assert (not (= %s vnil)))", sym))
	t.trustedUsed["library error sentinel "+g.Pkg.Pkg.Path()+"."+g.Name()+" is a constant (A17)"] = true
	return sym
}

func (t *Trans) binop(fr *Frame, x *ssa.BinOp) string {
	a, b := fr.val(x.X), fr.val(x.Y)
	xt := x.X.Type()
	s := t.env.SortOf(xt)
	signed := false
	if bt, ok := xt.Underlying().(*types.Basic); ok {
		_, signed = intWidth(bt)
	}
	isBV := strings.HasPrefix(s, "(_ BitVec ")
	isF := s == sortF64 || s == sortF32
	switch x.Op {
	case token.EQL, token.NEQ:
		var e string
		if isF {
			e = fmt.Sprintf("(fp.eq %s %s)", a, b)
		} else if s == "Val" || t.env.SortOf(x.Y.Type()) == "Val" {
			e = fmt.Sprintf("(= %s %s)", a, b)
		} else {
			e = fmt.Sprintf("(= %s %s)", a, b)
		}
		if x.Op == token.NEQ {
			return "(not " + e + ")"
		}
		return e
	case token.LSS, token.LEQ, token.GTR, token.GEQ:
		if isBV {
			op := map[token.Token]string{token.LSS: "lt", token.LEQ: "le", token.GTR: "gt", token.GEQ: "ge"}[x.Op]
			pre := "bvu"
			if signed {
				pre = "bvs"
			}
			return fmt.Sprintf("(%s%s %s %s)", pre, op, a, b)
		}
		if isF {
			op := map[token.Token]string{token.LSS: "fp.lt", token.LEQ: "fp.leq", token.GTR: "fp.gt", token.GEQ: "fp.geq"}[x.Op]
			return fmt.Sprintf("(%s %s %s)", op, a, b)
		}
		if s == "Str" {
			t.uses["strings"] = true
			op := map[token.Token]string{token.LSS: "<", token.LEQ: "<=", token.GTR: ">", token.GEQ: ">="}[x.Op]
			return fmt.Sprintf("(%s (strCmp %s %s) 0)", op, a, b)
		}
	case token.ADD:
		if isBV {
			return fmt.Sprintf("(bvadd %s %s)", a, b)
		}
		if isF {
			return fmt.Sprintf("(fp.add RNE %s %s)", a, b)
		}
		if s == "Str" {
			t.uses["strings"] = true
			return fmt.Sprintf("(scat %s %s)", a, b)
		}
	case token.SUB:
		if isBV {
			return fmt.Sprintf("(bvsub %s %s)", a, b)
		}
		if isF {
			return fmt.Sprintf("(fp.sub RNE %s %s)", a, b)
		}
	case token.MUL:
		if isBV {
			return fmt.Sprintf("(bvmul %s %s)", a, b)
		}
		if isF {
			return fmt.Sprintf("(fp.mul RNE %s %s)", a, b)
		}
	case token.QUO, token.REM:
		if isBV {
			var w int
			fmt.Sscanf(s, "(_ BitVec %d)", &w)
			t.safe(fr, "div-by-zero", fmt.Sprintf("(not (= %s %s))", b, bvLit(0, w)), x.Pos())
			op := "bvudiv"
			if x.Op == token.REM {
				op = "bvurem"
			}
			if signed {
				op = "bvsdiv"
				if x.Op == token.REM {
					op = "bvsrem"
				}
			}
			return fmt.Sprintf("(%s %s %s)", op, a, b)
		}
		if isF && x.Op == token.QUO {
			return fmt.Sprintf("(fp.div RNE %s %s)", a, b)
		}
	case token.AND:
		if isBV {
			return fmt.Sprintf("(bvand %s %s)", a, b)
		}
	case token.OR:
		if isBV {
			return fmt.Sprintf("(bvor %s %s)", a, b)
		}
	case token.XOR:
		if isBV {
			return fmt.Sprintf("(bvxor %s %s)", a, b)
		}
	case token.AND_NOT:
		if isBV {
			return fmt.Sprintf("(bvand %s (bvnot %s))", a, b)
		}
	case token.SHL, token.SHR:
		if isBV {
			var w, wy int
			fmt.Sscanf(s, "(_ BitVec %d)", &w)
			fmt.Sscanf(t.env.SortOf(x.Y.Type()), "(_ BitVec %d)", &wy)
			sh := b
			if wy < w {
				sh = fmt.Sprintf("((_ zero_extend %d) %s)", w-wy, b)
			} else if wy > w {
				// saturate: any count >= w gives the same result as w
				sh = fmt.Sprintf("(ite (bvuge %s %s) %s ((_ extract %d 0) %s))", b, bvLit(uint64(w), wy), bvLit(uint64(w), w), w-1, b)
			}
			op := "bvshl"
			if x.Op == token.SHR {
				op = "bvlshr"
				if signed {
					op = "bvashr"
				}
			}
			return fmt.Sprintf("(%s %s %s)", op, a, sh)
		}
	}
	t.errorf("%s: unsupported binary operation %s on %s", fr.path, x.Op, xt)
	return t.freshConst(t.env.SortOf(x.Type()), "binop")
}

func (t *Trans) convert(fr *Frame, x *ssa.Convert) string {
	a := fr.val(x.X)
	from, to := x.X.Type(), x.Type()
	fs, ts := t.env.SortOf(from), t.env.SortOf(to)
	fb, fIsB := from.Underlying().(*types.Basic)
	tb, tIsB := to.Underlying().(*types.Basic)
	switch {
	case strings.HasPrefix(fs, "(_ BitVec ") && strings.HasPrefix(ts, "(_ BitVec ") && fIsB && tIsB:
		fw, fsigned := intWidth(fb)
		tw, _ := intWidth(tb)
		return resizeBV(a, fw, tw, fsigned)
	case strings.HasPrefix(fs, "(_ BitVec ") && (ts == sortF64 || ts == sortF32) && fIsB:
		_, fsigned := intWidth(fb)
		e, m := 11, 53
		if ts == sortF32 {
			e, m = 8, 24
		}
		if fsigned {
			return fmt.Sprintf("((_ to_fp %d %d) RNE %s)", e, m, a)
		}
		return fmt.Sprintf("((_ to_fp_unsigned %d %d) RNE %s)", e, m, a)
	case (fs == sortF64 || fs == sortF32) && strings.HasPrefix(ts, "(_ BitVec ") && tIsB:
		tw, tsigned := intWidth(tb)
		if tsigned {
			return fmt.Sprintf("((_ fp.to_sbv %d) RTZ %s)", tw, a)
		}
		return fmt.Sprintf("((_ fp.to_ubv %d) RTZ %s)", tw, a)
	case fs == sortF64 && ts == sortF32:
		return fmt.Sprintf("((_ to_fp 8 24) RNE %s)", a)
	case fs == sortF32 && ts == sortF64:
		return fmt.Sprintf("((_ to_fp 11 53) RNE %s)", a)
	case fs == ts:
		return a
	case fs == "Str" && ts == "Bytes":
		return fmt.Sprintf("(bmk %s)", a)
	case fs == "Bytes" && ts == "Str":
		return fmt.Sprintf("(bytesStr %s)", a)
	}
	t.note("%s: conversion %s -> %s abstracted", fr.path, from, to)
	return t.freshConst(ts, "conv")
}

func resizeBV(a string, fw, tw int, signed bool) string {
	switch {
	case fw == tw:
		return a
	case fw > tw:
		return fmt.Sprintf("((_ extract %d 0) %s)", tw-1, a)
	case signed:
		return fmt.Sprintf("((_ sign_extend %d) %s)", tw-fw, a)
	default:
		return fmt.Sprintf("((_ zero_extend %d) %s)", tw-fw, a)
	}
}

// box injects a value of static Go type typ into Val.
func (t *Trans) box(a string, typ types.Type) string {
	env := t.env
	if _, isIface := typ.Underlying().(*types.Interface); isIface {
		return a
	}
	id := env.TyIDTerm(typ)
	s := env.SortOf(typ)
	switch {
	case s == "Time":
		return fmt.Sprintf("(vtime %s)", a)
	case strings.HasPrefix(s, "(_ BitVec "):
		b := typ.Underlying().(*types.Basic)
		w, signed := intWidth(b)
		return fmt.Sprintf("(vint %s %s)", id, resizeBV(a, w, 64, signed))
	case s == sortF64:
		return fmt.Sprintf("(vflt %s %s)", id, a)
	case s == sortF32:
		return fmt.Sprintf("(vflt %s ((_ to_fp 11 53) RNE %s))", id, a)
	case s == "Str":
		return fmt.Sprintf("(vstr %s %s)", id, a)
	case s == "Bool":
		return fmt.Sprintf("(vbool %s %s)", id, a)
	case s == "Ref":
		return fmt.Sprintf("(vref %s %s)", id, a)
	case s == "Slice":
		return fmt.Sprintf("(vslice %s %s)", id, a)
	case s == "Bytes":
		return fmt.Sprintf("(vbytes %s %s)", id, a)
	case s == "Func":
		return fmt.Sprintf("(vfunc %s %s)", id, a)
	}
	t.note("boxing of %s abstracted as opaque", typ)
	return fmt.Sprintf("(vopq %s %s)", id, t.freshConst("Int", "opq"))
}

// unbox returns (ok condition, payload) for asserting Val a to concrete type typ.
func (t *Trans) unbox(a string, typ types.Type) (string, string) {
	env := t.env
	id := env.TyIDTerm(typ)
	s := env.SortOf(typ)
	switch {
	case s == "Time":
		return fmt.Sprintf("((_ is vtime) %s)", a), fmt.Sprintf("(tval %s)", a)
	case strings.HasPrefix(s, "(_ BitVec "):
		b := typ.Underlying().(*types.Basic)
		w, _ := intWidth(b)
		return fmt.Sprintf("(and ((_ is vint) %s) (= (vty %s) %s))", a, a, id), resizeBV(fmt.Sprintf("(vbits %s)", a), 64, w, false)
	case s == sortF64:
		return fmt.Sprintf("(and ((_ is vflt) %s) (= (fty %s) %s))", a, a, id), fmt.Sprintf("(fval %s)", a)
	case s == sortF32:
		return fmt.Sprintf("(and ((_ is vflt) %s) (= (fty %s) %s))", a, a, id), fmt.Sprintf("((_ to_fp 8 24) RNE (fval %s))", a)
	case s == "Str":
		return fmt.Sprintf("(and ((_ is vstr) %s) (= (sty %s) %s))", a, a, id), fmt.Sprintf("(sval %s)", a)
	case s == "Bool":
		return fmt.Sprintf("(and ((_ is vbool) %s) (= (bty %s) %s))", a, a, id), fmt.Sprintf("(bval %s)", a)
	case s == "Ref":
		return fmt.Sprintf("(and ((_ is vref) %s) (= (rty %s) %s))", a, a, id), fmt.Sprintf("(rval %s)", a)
	case s == "Slice":
		return fmt.Sprintf("(and ((_ is vslice) %s) (= (lty %s) %s))", a, a, id), fmt.Sprintf("(lval %s)", a)
	case s == "Bytes":
		return fmt.Sprintf("(and ((_ is vbytes) %s) (= (yty %s) %s))", a, a, id), fmt.Sprintf("(yval %s)", a)
	case s == "Func":
		return fmt.Sprintf("(and ((_ is vfunc) %s) (= (nty %s) %s))", a, a, id), fmt.Sprintf("(nval %s)", a)
	}
	return fmt.Sprintf("(and ((_ is vopq) %s) (= (oty %s) %s))", a, a, id), t.freshConst(s, "unboxed")
}

func (t *Trans) implementsCond(a string, it *types.Interface) string {
	if it.NumMethods() == 0 {
		return fmt.Sprintf("(not (= %s vnil))", a)
	}
	var alts []string
	for _, impl := range t.P.implementers(it) {
		alts = append(alts, fmt.Sprintf("(= (tyOf %s) %s)", a, t.env.TyIDTerm(impl)))
	}
	if len(alts) == 0 {
		return "false"
	}
	return orTerms(alts)
}

func (t *Trans) execTypeAssert(fr *Frame, x *ssa.TypeAssert) {
	a := fr.val(x.X)
	env := t.env
	var ok, payload string
	if it, isIface := x.AssertedType.Underlying().(*types.Interface); isIface {
		ok = t.implementsCond(a, it)
		payload = a
	} else {
		ok, payload = t.unbox(a, x.AssertedType)
	}
	okn := t.define("Bool", fr.name(x)+"ok", ok)
	s := env.SortOf(x.AssertedType)
	if x.CommaOk {
		v := t.define(s, fr.name(x)+"v", fmt.Sprintf("(ite %s %s %s)", okn, payload, env.Zero(x.AssertedType)))
		fr.tuples[x] = []string{v, okn}
		return
	}
	t.safe(fr, "type-assert."+smtSym(x.Name()), okn, x.Pos())
	fr.vals[x] = t.define(s, fr.name(x), payload)
}

func (t *Trans) execIndexAddr(fr *Frame, x *ssa.IndexAddr) {
	i := fr.val(x.Index)
	i = t.widenIndex(i, x.Index.Type())
	switch xt := x.X.Type().Underlying().(type) {
	case *types.Slice:
		s := fr.val(x.X)
		t.safe(fr, "index."+smtSym(x.Name()), fmt.Sprintf("(bvult %s (sllen %s))", i, s), x.Pos())
		fr.vals[x] = t.define("Ref", fr.name(x), fmt.Sprintf("(selemaddr %s %s)", s, i))
	case *types.Pointer: // *array
		arr := xt.Elem().Underlying().(*types.Array)
		t.safeDeref(fr, x.X, x.Pos())
		t.safe(fr, "index."+smtSym(x.Name()), fmt.Sprintf("(bvult %s %s)", i, bvLit(uint64(arr.Len()), 64)), x.Pos())
		fr.vals[x] = t.define("Ref", fr.name(x), fmt.Sprintf("(idx %s %s)", fr.val(x.X), i))
	default:
		t.errorf("%s: IndexAddr on %s", fr.path, x.X.Type())
	}
}

func (t *Trans) widenIndex(i string, typ types.Type) string {
	if b, ok := typ.Underlying().(*types.Basic); ok {
		w, signed := intWidth(b)
		if w != 0 && w != 64 {
			return resizeBV(i, w, 64, signed)
		}
	}
	return i
}

func (t *Trans) mapHas(st State, m, k string, mt types.Type) string {
	has, _, _ := t.env.mapComps(mt)
	return fmt.Sprintf("(and (not (= %s null)) (select (select %s %s) %s))", m, st.get(has), m, k)
}

func (t *Trans) execLookup(fr *Frame, x *ssa.Lookup) {
	env := t.env
	if _, isMap := x.X.Type().Underlying().(*types.Map); !isMap {
		// string index
		s := fr.val(x.X)
		i := t.widenIndex(fr.val(x.Index), x.Index.Type())
		t.uses["strings"] = true
		t.safe(fr, "index."+smtSym(x.Name()), fmt.Sprintf("(bvult %s (slen %s))", i, s), x.Pos())
		fr.vals[x] = t.define("(_ BitVec 8)", fr.name(x), fmt.Sprintf("(sbyte %s %s)", s, i))
		return
	}
	if g, ok := fr.gmaps[x.X]; ok {
		// constant map built by a composite literal in init and never written afterwards
		mt := x.X.Type().Underlying().(*types.Map)
		k := fr.val(x.Index)
		v := env.Zero(mt.Elem())
		var hs []string
		ents := t.P.globalMaps[g]
		for i := len(ents) - 1; i >= 0; i-- {
			kt, vt := t.constTerm(ents[i][0]), t.constTerm(ents[i][1])
			v = fmt.Sprintf("(ite (= %s %s) %s %s)", k, kt, vt, v)
			hs = append(hs, fmt.Sprintf("(= %s %s)", k, kt))
		}
		vv := t.define(env.SortOf(mt.Elem()), fr.name(x)+"v", v)
		if x.CommaOk {
			fr.tuples[x] = []string{vv, t.define("Bool", fr.name(x)+"has", orTerms(hs))}
		} else {
			fr.vals[x] = vv
		}
		return
	}
	m, k := fr.val(x.X), fr.val(x.Index)
	mt := x.X.Type().Underlying().(*types.Map)
	_, val, _ := env.mapComps(x.X.Type())
	has := t.define("Bool", fr.name(x)+"has", t.mapHas(fr.st, m, k, x.X.Type()))
	vs := env.SortOf(mt.Elem())
	v := t.define(vs, fr.name(x)+"v", fmt.Sprintf("(ite %s (select (select %s %s) %s) %s)", has, fr.st.get(val), m, k, env.Zero(mt.Elem())))
	t.assume(fr.curReach, t.wfOf(v, mt.Elem(), fr.st))
	if x.CommaOk {
		fr.tuples[x] = []string{v, has}
	} else {
		fr.vals[x] = v
	}
}

func (t *Trans) execMapUpdate(fr *Frame, x *ssa.MapUpdate) {
	env := t.env
	m, k, v := fr.val(x.Map), fr.val(x.Key), fr.val(x.Value)
	if !fr.nonNullSyntactic(x.Map) {
		t.safe(fr, "nil-map-write", fmt.Sprintf("(not (= %s null))", m), x.Pos())
	}
	t.assertStore(fr, "map", v, x.Value.Type(), k, x.Key.Type(), x.Pos())
	fr.st = t.mapStore(fr.st, x.Map.Type(), m, k, v)
	_ = env
}

// assertStore: the assert-store clauses of the function under verification, at one store site
func (t *Trans) assertStore(fr *Frame, kind, val string, vt types.Type, key string, kt types.Type, pos token.Pos) {
	if t.topC == nil || fr != t.topFrame {
		return
	}
	for _, as := range t.topC.AssertStore {
		parts := strings.SplitN(as.Label, "|", 2)
		if parts[0] != kind {
			continue
		}
		sc := &SpecCtx{t: t, fr: fr, st: fr.st, old: fr.entrySt, at: fr.curBlock, names: map[string]specVal{}}
		sc.names["$val"] = specVal{val, vt}
		if key != "" {
			sc.names["$key"] = specVal{key, kt}
		}
		t.oblige("assert", fmt.Sprintf("%s#store.%s", fr.path, labelOr(parts[1], "a")), tagsOr(as.Tags, fr.tags), fr.curReach, sc.expandBool(as.Expr), pos, "holds for the value stored into a "+kind+" element")
	}
}

func (t *Trans) mapStore(st State, mt types.Type, m, k, v string) State {
	env := t.env
	has, val, ln := env.mapComps(mt)
	had := fmt.Sprintf("(select (select %s %s) %s)", st.get(has), m, k)
	nl := t.define(env.comps[ln], ln+"@s", fmt.Sprintf("(store %s %s (ite %s (select %s %s) (bvadd (select %s %s) #x0000000000000001)))", st.get(ln), m, had, st.get(ln), m, st.get(ln), m))
	nh := t.define(env.comps[has], has+"@s", fmt.Sprintf("(store %s %s (store (select %s %s) %s true))", st.get(has), m, st.get(has), m, k))
	nv := t.define(env.comps[val], val+"@s", fmt.Sprintf("(store %s %s (store (select %s %s) %s %s))", st.get(val), m, st.get(val), m, k, v))
	return st.set(ln, nl).set(has, nh).set(val, nv)
}

func (t *Trans) execMakeSlice(fr *Frame, x *ssa.MakeSlice) {
	env := t.env
	ln := t.widenIndex(fr.val(x.Len), x.Len.Type())
	cp := t.widenIndex(fr.val(x.Cap), x.Cap.Type())
	if isByteSlice(x.Type()) {
		t.uses["strings"] = true
		// a fresh byte string of the requested length (contents zero, not modelled)
		s := t.freshConst("Str", fr.name(x)+"s")
		t.assume(fr.curReach, fmt.Sprintf("(= (slen %s) %s)", s, ln))
		if c, ok := x.Len.(*ssa.Const); ok && c.Int64() == 0 {
			fr.vals[x] = "(bmk sempty)"
		} else {
			fr.vals[x] = fmt.Sprintf("(bmk %s)", s)
		}
		return
	}
	// make panics on a negative length or len > cap; a request beyond LENMAX (2^40) elements is an allocation
	// failure (fatal out-of-memory, not a panic): modelled as "does not return" (assumption A-LEN, DESIGN.md)
	t.safe(fr, "makeslice-len", fmt.Sprintf("(and (bvsle %s %s) (bvsle %s %s))", zero64, ln, ln, cp), x.Pos())
	t.assume(fr.curReach, fmt.Sprintf("(bvslt %s LENMAX)", cp))
	r := t.newObject(fr, fr.name(x)+"b")
	fr.vals[x] = t.define("Slice", fr.name(x), fmt.Sprintf("(mk-slice %s %s %s %s)", r, zero64, ln, cp))
	elem := x.Type().Underlying().(*types.Slice).Elem()
	if !isStructType(elem) {
		c := env.cellComp(elem)
		n := t.freshConst(env.comps[c], c+"@mk")
		old := fr.st.get(c)
		t.assume("true", fmt.Sprintf("(forall ((r!m Ref)) (! (= (select %s r!m) (ite (= (rid r!m) (rid %s)) %s (select %s r!m))) :pattern ((select %s r!m))))", n, r, env.Zero(elem), old, n))
		fr.st = fr.st.set(c, n)
	}
}

func (t *Trans) execSlice(fr *Frame, x *ssa.Slice) {
	env := t.env
	a := fr.val(x.X)
	get := func(v ssa.Value, def string) string {
		if v == nil {
			return def
		}
		return t.widenIndex(fr.val(v), v.Type())
	}
	switch xt := x.X.Type().Underlying().(type) {
	case *types.Slice:
		if isByteSlice(x.X.Type()) {
			t.uses["strings"] = true
			lo := get(x.Low, zero64)
			hi := get(x.High, fmt.Sprintf("(blen %s)", a))
			t.safe(fr, "slice-bounds."+smtSym(x.Name()), fmt.Sprintf("(and (bvule %s %s) (bvule %s (blen %s)))", lo, hi, hi, a), x.Pos())
			fr.vals[x] = t.define("Bytes", fr.name(x), fmt.Sprintf("(bmk (ssub (bytesStr %s) %s %s))", a, lo, hi))
			return
		}
		lo := get(x.Low, zero64)
		hi := get(x.High, fmt.Sprintf("(sllen %s)", a))
		t.safe(fr, "slice-bounds."+smtSym(x.Name()), fmt.Sprintf("(and (bvule %s %s) (bvule %s (slcap %s)))", lo, hi, hi, a), x.Pos())
		fr.vals[x] = t.define("Slice", fr.name(x), fmt.Sprintf("(ite (and (= (sbase %s) null)) nilslice (mk-slice (sbase %s) (bvadd (soff %s) %s) (bvsub %s %s) (bvsub (slcap %s) %s)))", a, a, a, lo, hi, lo, a, lo))
	case *types.Basic: // string
		t.uses["strings"] = true
		lo := get(x.Low, zero64)
		hi := get(x.High, fmt.Sprintf("(slen %s)", a))
		t.safe(fr, "slice-bounds."+smtSym(x.Name()), fmt.Sprintf("(and (bvule %s %s) (bvule %s (slen %s)))", lo, hi, hi, a), x.Pos())
		fr.vals[x] = t.define("Str", fr.name(x), fmt.Sprintf("(ssub %s %s %s)", a, lo, hi))
	case *types.Pointer: // *array
		arr := xt.Elem().Underlying().(*types.Array)
		n := bvLit(uint64(arr.Len()), 64)
		if al, ok := x.X.(*ssa.Alloc); ok && fr.bytearr[al] {
			c := env.Comp("C_bytearr", "(Array Ref Str)")
			fr.vals[x] = t.define("Bytes", fr.name(x), fmt.Sprintf("(bmk (select %s %s))", fr.st.get(c), a))
			return
		}
		lo := get(x.Low, zero64)
		hi := get(x.High, n)
		fr.vals[x] = t.define("Slice", fr.name(x), fmt.Sprintf("(mk-slice %s %s (bvsub %s %s) (bvsub %s %s))", a, lo, hi, lo, n, lo))
	default:
		t.errorf("%s: Slice of %s", fr.path, x.X.Type())
	}
}

// map iteration: ghost visited set per Range instruction.
func (t *Trans) iterComp(fr *Frame, x *ssa.Range) string {
	mt := x.X.Type().Underlying().(*types.Map)
	return t.env.Comp(fmt.Sprintf("IT_%s_%s", fr.id, smtSym(x.Name())), fmt.Sprintf("(Array %s Bool)", t.env.SortOf(mt.Key())))
}

func (t *Trans) execRange(fr *Frame, x *ssa.Range) {
	if _, isMap := x.X.Type().Underlying().(*types.Map); !isMap {
		t.errorf("%s: range over %s not supported", fr.path, x.X.Type())
		return
	}
	c := t.iterComp(fr, x)
	mt := x.X.Type().Underlying().(*types.Map)
	fr.st = fr.st.set(c, fmt.Sprintf("((as const (Array %s Bool)) false)", t.env.SortOf(mt.Key())))
	fr.vals[x] = fr.val(x.X)
}

func (t *Trans) execNext(fr *Frame, x *ssa.Next) {
	r, ok := x.Iter.(*ssa.Range)
	if !ok || x.IsString {
		t.errorf("%s: unsupported Next", fr.path)
		return
	}
	env := t.env
	c := t.iterComp(fr, r)
	mt := r.X.Type().Underlying().(*types.Map)
	m := fr.val(r.X)
	has, val, _ := env.mapComps(r.X.Type())
	ks, vs := env.SortOf(mt.Key()), env.SortOf(mt.Elem())
	okc := t.freshConst("Bool", fr.name(x)+"ok")
	k := t.freshConst(ks, fr.name(x)+"k")
	v := t.freshConst(vs, fr.name(x)+"v")
	vis := fr.st.get(c)
	hasK := t.mapHas(fr.st, m, k, r.X.Type())
	t.assume(fr.curReach, fmt.Sprintf("(=> %s (and %s (not (select %s %s)) (= %s (select (select %s %s) %s))))", okc, hasK, vis, k, v, fr.st.get(val), m, k))
	t.assume(fr.curReach, fmt.Sprintf("(=> (not %s) (forall ((k!n %s)) (! (=> (and (not (= %s null)) (select (select %s %s) k!n)) (select %s k!n)) :pattern ((select %s k!n)) :pattern ((select (select %s %s) k!n)))))", okc, ks, m, fr.st.get(has), m, vis, vis, fr.st.get(has), m))
	t.assume(fr.curReach, t.wfOf(v, mt.Elem(), fr.st))
	fr.st = fr.st.set(c, t.define(env.comps[c], c+"@s", fmt.Sprintf("(ite %s (store %s %s true) %s)", okc, vis, k, vis)))
	fr.tuples[x] = []string{okc, k, v}
}

func blockReaches(from, to *ssa.BasicBlock) bool {
	if from == to {
		return true
	}
	seen := map[*ssa.BasicBlock]bool{from: true}
	work := []*ssa.BasicBlock{from}
	for len(work) > 0 {
		b := work[len(work)-1]
		work = work[:len(work)-1]
		for _, s := range b.Succs {
			if s == to {
				return true
			}
			if !seen[s] {
				seen[s] = true
				work = append(work, s)
			}
		}
	}
	return false
}
