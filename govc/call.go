package main

import (
	"os"
	"fmt"
	"go/constant"
	"go/token"
	"go/types"
	"sort"
	"strings"

	"golang.org/x/tools/go/ssa"
)

const inlineMaxInstrs = 80
const inlineMaxDepth = 8

func (t *Trans) execCall(fr *Frame, c *ssa.CallCommon, v ssa.Value, pos token.Pos) []string {
	var args []string
	for _, a := range c.Args {
		args = append(args, fr.val(a))
	}
	if c.IsInvoke() {
		return t.execInvoke(fr, c, args, pos)
	}
	switch callee := c.Value.(type) {
	case *ssa.Builtin:
		t.curCallValue = v
		return t.execBuiltin(fr, callee, c, args, pos)
	case *ssa.Function:
		return t.callStatic(fr, callee, c.Args, args, nil, pos)
	case *ssa.MakeClosure:
		ci := fr.closures[callee]
		t.pendingFinals = ci.finals
		return t.callStatic(fr, ci.fn, c.Args, args, ci.bindings, pos)
	}
	if ci, ok := fr.closures[c.Value]; ok {
		t.pendingFinals = ci.finals
		return t.callStatic(fr, ci.fn, c.Args, args, ci.bindings, pos)
	}
	return t.callDynamic(fr, c, args, pos)
}

func hasLoops(f *ssa.Function) bool {
	for _, b := range f.Blocks {
		for _, s := range b.Succs {
			if s.Dominates(b) {
				return true
			}
		}
	}
	return false
}

func instrCount(f *ssa.Function) int {
	n := 0
	for _, b := range f.Blocks {
		for _, in := range b.Instrs {
			if _, ok := in.(*ssa.DebugRef); !ok {
				n++
			}
		}
	}
	return n
}

func (t *Trans) canInline(f *ssa.Function, c *Contract) bool {
	if f.Blocks == nil {
		return false
	}
	for _, g := range t.stack {
		if g == f {
			return false
		}
	}
	if len(t.stack) >= inlineMaxDepth {
		return false
	}
	if c != nil && c.Inline {
		return true
	}
	if f.Synthetic != "" && strings.HasPrefix(f.Synthetic, "wrapper") || strings.HasPrefix(f.Synthetic, "bound") || strings.HasPrefix(f.Synthetic, "thunk") {
		return !hasLoops(f)
	}
	if !t.P.isClover(f) {
		return false
	}
	return !hasLoops(f) && instrCount(f) <= inlineMaxInstrs
}

func shortFn(f *ssa.Function) string {
	n := f.Name()
	if r := f.Signature.Recv(); r != nil {
		rt := r.Type()
		if p, ok := rt.(*types.Pointer); ok {
			rt = p.Elem()
		}
		if nt, ok := rt.(*types.Named); ok {
			n = nt.Obj().Name() + "." + n
		}
	}
	return n
}

func (t *Trans) callStatic(fr *Frame, f *ssa.Function, argVals []ssa.Value, args []string, freeVars []string, pos token.Pos) []string {
	if f.String() == "fmt.Sprintf" && len(argVals) == 2 {
		if term, ok := t.sprintfTerm(fr, argVals); ok {
			return []string{term}
		}
	}
	c := t.P.ContractFor(f)
	if c != nil && !c.Inline {
		names := make([]string, len(f.Params))
		ptypes := make([]types.Type, len(f.Params))
		for i, p := range f.Params {
			names[i] = p.Name()
			ptypes[i] = p.Type()
		}
		if f.Blocks == nil { // external: names from signature or contract
			names, ptypes = sigNames(f.Signature, c)
		}
		var w map[string]string
		if f.Blocks != nil && !c.Trusted && t.P.isClover(f) {
			w = t.P.funcWrites(t.env, f)
		}
		pend := t.checkCallbackArgs(fr, c.Key, shortFn(f), names, ptypes, argVals, pos)
		if f.Signature.Recv() != nil && len(args) > 0 && len(f.Params) > 0 && t.selfTerm == "" {
			t.selfTerm = t.box(args[0], f.Params[0].Type()) // "self" of a method contract: the boxed receiver
		}
		res := t.applyContract(fr, c, shortFn(f), f.Signature, names, ptypes, args, w, pos)
		for _, p := range pend {
			t.assume(fr.curReach, p(fr.st))
		}
		t.takeSnapshots(fr, shortFn(f))
		return res
	}
	if t.canInline(f, c) {
		return t.inlineCall(fr, f, c, argVals, args, freeVars, pos)
	}
	return t.havocCall(fr, f.String(), f.Signature, args, f)
}

func sigNames(sig *types.Signature, c *Contract) ([]string, []types.Type) {
	var names []string
	var ts []types.Type
	if r := sig.Recv(); r != nil {
		names = append(names, "self")
		ts = append(ts, r.Type())
	}
	for i := 0; i < sig.Params().Len(); i++ {
		p := sig.Params().At(i)
		n := p.Name()
		if n == "" || n == "_" {
			n = fmt.Sprintf("a%d", i)
		}
		names = append(names, n)
		ts = append(ts, p.Type())
	}
	if c != nil && len(c.Params) > 0 {
		for i := range names {
			if i < len(c.Params) {
				names[i] = c.Params[i]
			}
		}
	}
	return names, ts
}

func (t *Trans) inlineCall(fr *Frame, f *ssa.Function, c *Contract, argVals []ssa.Value, args []string, freeVars []string, pos token.Pos) []string {
	sub := t.newFrame(f, args, fr.path+"/"+shortFn(f))
	sub.freeVars = freeVars
	if t.pendingFinals != nil {
		sub.fvFinal = t.pendingFinals
		t.pendingFinals = nil
	}
	sub.tags = fr.tags
	sub.ghosts = fr.ghosts
	if c != nil && c.Inline {
		sub.contract = c
	}
	for i, av := range argVals {
		if av == nil {
			continue
		}
		if ci, ok := fr.closures[av]; ok && i < len(f.Params) {
			sub.closures[f.Params[i]] = ci
		}
	}
	t.stack = append(t.stack, f)
	t.execBody(sub, fr.curReach, fr.st)
	t.stack = t.stack[:len(t.stack)-1]
	res, st, retCond := t.mergeReturns(sub)
	fr.st = st
	t.assume(fr.curReach, retCond)
	t.takeSnapshots(fr, shortFn(f))
	return res
}

func (t *Trans) mergeReturns(sub *Frame) ([]string, State, string) {
	if len(sub.rets) == 0 {
		return nil, sub.entrySt, "false"
	}
	var edges []inEdge
	var conds []string
	for i, r := range sub.rets {
		edges = append(edges, inEdge{i, nil, r.cond, r.st})
		conds = append(conds, r.cond)
	}
	st := t.mergeStates(edges, "ret")
	nres := len(sub.rets[0].results)
	res := make([]string, nres)
	rs := sub.fn.Signature.Results()
	for k := 0; k < nres; k++ {
		vals := make([]string, len(edges))
		for i, r := range sub.rets {
			vals[i] = r.results[k]
		}
		res[k] = t.define(t.env.SortOf(rs.At(k).Type()), sub.id+"!ret", iteChain(edges, vals))
	}
	return res, st, t.define("Bool", sub.id+"!returned", orTerms(conds))
}

// havocCall: callee without contract and not inlinable: results unconstrained, everything it may write havocked.
func (t *Trans) havocCall(fr *Frame, name string, sig *types.Signature, args []string, f *ssa.Function) []string {
	if f != nil && f.Blocks != nil && t.P.isClover(f) {
		t.note("call to %s (no contract, not inlinable) abstracted: results and written state havocked", name)
		w := t.P.funcWrites(t.env, f)
		t.havocComps(fr, w, nil, nil)
	} else {
		t.note("call to external %s without contract: heap havocked, result unconstrained", name)
		t.havocState(fr, false)
	}
	return t.freshResults(fr, sig, name)
}

func (t *Trans) freshResults(fr *Frame, sig *types.Signature, hint string) []string {
	var res []string
	for i := 0; i < sig.Results().Len(); i++ {
		rt := sig.Results().At(i).Type()
		n := t.freshConst(t.env.SortOf(rt), fr.id+"!"+smtSym(hint)+"r")
		t.assume(fr.curReach, t.wfOf(n, rt, fr.st))
		res = append(res, n)
	}
	return res
}

func (t *Trans) havocAll(fr *Frame) { t.havocState(fr, true) }

// havocState: every heap component gets a fresh value; ghost (store protocol) components too when
// ghosts is set. Library code other than the store adapters never touches the store (assumption A16),
// so unknown external calls leave the ghost state alone.
func (t *Trans) havocState(fr *Frame, ghosts bool) {
	pre := fr.st
	for _, c := range append([]string{}, t.env.compOrd...) {
		if strings.HasPrefix(c, "IT_") {
			continue
		}
		if _, isGhost := t.P.ghostComps[c]; isGhost {
			continue
		}
		n := t.freshConst(t.env.comps[c], c+"@hv")
		fr.st = fr.st.set(c, n)
		if c == "alloc" {
			t.assume("true", fmt.Sprintf("(>= %s %s)", n, pre.get("alloc")))
		}
	}
	if !ghosts {
		return
	}
	for _, g := range t.P.ghostOrd {
		t.env.Comp(g, t.P.ghostComps[g])
		fr.st = fr.st.set(g, t.freshConst(t.P.ghostComps[g], g+"@hv"))
	}
}

// havocComps replaces the listed components by fresh versions, keeping pre-existing locations
// outside the contract's modifies clause unchanged.
func (t *Trans) havocComps(fr *Frame, w map[string]string, c *Contract, sc *SpecCtx) {
	if _, all := w["*"]; all {
		t.note("%s: a callee may write any heap location: heap havocked", fr.path)
		_, gh := w["ghost*"]
		t.havocState(fr, gh)
		delete(w, "*")
	}
	if _, gh := w["ghost*"]; gh {
		delete(w, "ghost*")
		for _, g := range t.P.ghostOrd {
			t.env.Comp(g, t.P.ghostComps[g])
			fr.st = fr.st.set(g, t.freshConst(t.P.ghostComps[g], g+"@hv"))
		}
	}
	pre := fr.st
	ws := make([]string, 0, len(w))
	for k := range w {
		ws = append(ws, k)
	}
	sort.Strings(ws)
	for _, comp := range ws {
		srt := w[comp]
		t.env.Comp(comp, srt)
		if comp == "alloc" {
			n := t.freshConst("Int", "alloc@c")
			t.assume("true", fmt.Sprintf("(>= %s %s)", n, pre.get("alloc")))
			fr.st = fr.st.set("alloc", n)
			continue
		}
		var conds []string
		whole := c == nil // a callee without contract may change anything it can write
		if c != nil {
			conds, whole = t.modifiesFor(c, comp, sc, "r!c")
		}
		isRefArr := strings.HasPrefix(srt, "(Array Ref ")
		if !isRefArr && !whole {
			if t.P.ghostComps[comp] != "" || strings.HasPrefix(comp, "IT_") {
				continue // ghost scalar not listed: unchanged
			}
		}
		n := t.freshConst(srt, comp+"@c")
		fr.st = fr.st.set(comp, n)
		if whole || !isRefArr {
			continue
		}
		cs := []string{fmt.Sprintf("(<= (rid r!c) %s)", pre.get("alloc"))}
		for _, e := range conds {
			cs = append(cs, "(not "+e+")")
		}
		t.assume("true", fmt.Sprintf("(forall ((r!c Ref)) (! (=> %s (= (select %s r!c) (select %s r!c))) :pattern ((select %s r!c))))", andTerms(cs...), n, pre.get(comp), n))
	}
}

// autoRequires: default preconditions (checked at call sites, assumed at entry).
func (t *Trans) autoRequires(c *Contract, names []string, ptypes []types.Type, args []string) []string {
	nullable := map[string]bool{}
	if c != nil {
		for _, n := range c.Extra["nullable"] {
			for _, a := range sxAtoms(n) {
				nullable[a] = true
			}
		}
	}
	var out []string
	for i, n := range names {
		if i >= len(args) || nullable[n] || nullable["*"] {
			continue
		}
		switch u := ptypes[i].Underlying().(type) {
		case *types.Pointer:
			out = append(out, fmt.Sprintf("(not (= %s null))", args[i]))
		case *types.Interface:
			if u.NumMethods() > 0 {
				out = append(out, fmt.Sprintf("(not (= %s vnil))", args[i]))
			}
		case *types.Signature:
			out = append(out, fmt.Sprintf("(not (= %s fnil))", args[i]))
		}
	}
	return out
}

func (t *Trans) applyContract(fr *Frame, c *Contract, cname string, sig *types.Signature, names []string, ptypes []types.Type, args []string, writes map[string]string, pos token.Pos) []string {
	c.Used = true
	if c.Trusted {
		t.trustedUsed[c.Key] = true
	}
	if t.topC != nil && t.topFrame != nil {
		for _, ab := range t.topC.AssertBefore {
			parts := strings.SplitN(ab.Label, "|", 2)
			if strings.HasSuffix(cname, parts[0]) {
				// evaluated in the function under verification (its locals at the current point); the callee's
				// arguments are visible as $<parameter name>
				tf := t.topFrame
				asc := &SpecCtx{t: t, fr: tf, st: fr.st, old: tf.entrySt, at: tf.curBlock, names: map[string]specVal{}}
				for i, n := range names {
					if i < len(args) {
						asc.names["$"+n] = specVal{args[i], ptypes[i]}
					}
				}
				g := asc.expandBool(ab.Expr)
				t.oblige("assert", fmt.Sprintf("%s#assert.%s@%s", fr.path, labelOr(parts[1], "a"), parts[0]), tagsOr(ab.Tags, fr.tags), fr.curReach, g, pos, "holds just before the call to "+cname)
				// assert-then-assume: the fact is its own obligation; later obligations may use it as a lemma
				t.assume(fr.curReach, g)
			}
		}
		// reveal-before <callee> (f args): definitional instance of an opaque spec function in the state just
		// before the call (for nodes allocated by the function under verification)
		for _, rb := range t.topC.Extra["reveal-before"] {
			if !rb.IsL || len(rb.List) != 2 || !strings.HasSuffix(cname, rb.List[0].Atom) {
				continue
			}
			tf := t.topFrame
			asc := &SpecCtx{t: t, fr: tf, st: fr.st, old: tf.entrySt, at: tf.curBlock, names: map[string]specVal{}}
			for i, n := range names {
				if i < len(args) {
					asc.names["$"+n] = specVal{args[i], ptypes[i]}
				}
			}
			t.assume(fr.curReach, revealInstance(asc, rb.List[1]))
		}
	}
	for _, u := range c.Uses {
		t.uses[u] = true
	}
	pre := fr.st
	sc := &SpecCtx{t: t, fr: nil, st: pre, old: pre, names: map[string]specVal{}, callerFr: fr}
	if t.reqOld != nil {
		sc.old = *t.reqOld
	}
	for i, n := range names {
		if i < len(args) {
			sc.names[n] = specVal{args[i], ptypes[i]}
		}
	}
	if t.selfTerm != "" {
		sc.names["self"] = specVal{t.selfTerm, nil}
		t.selfTerm = ""
	}
	// exit-updates of the callee: part of its effect
	var exitUpd [][3]*Sx = c.ExitUpdates
	var freshGhosts []string
	for _, g := range c.Ghosts {
		if v, ok := fr.ghosts[g.Name]; ok {
			sc.names[g.Name] = specVal{v, nil}
		} else if v, ok := t.ghostBinding(fr, cname, g.Name); ok {
			sc.names[g.Name] = specVal{v, nil}
		} else {
			k := t.freshConst(g.Sort.String(), "ghost_"+g.Name)
			freshGhosts = append(freshGhosts, k)
			sc.names[g.Name] = specVal{k, nil}
		}
	}
	mentionsFreshGhost := func(term string) bool {
		for _, k := range freshGhosts {
			if strings.Contains(term, k) {
				return true
			}
		}
		return false
	}
	var ghostHyps []string
	site := fmt.Sprintf("%s#pre.%s", fr.path, cname)
	tags := append([]string{"C20"}, fr.tags...)
	autoReq := t.autoRequires(c, names, ptypes, args)
	if c.PkgPath == "" || c.Iface {
		autoReq = nil // library functions and interface methods: only their stated preconditions
	}
	for i, ar := range autoReq {
		if strings.Contains(ar, "null") || strings.Contains(ar, "vnil") || strings.Contains(ar, "fnil") {
			t.oblige("pre", fmt.Sprintf("%s.nonnil%d", site, i), tags, fr.curReach, ar, pos, "default precondition of "+cname+": argument non-nil")
		}
	}
	for _, r := range c.Requires {
		g := sc.expandBool(r.Expr)
		if mentionsFreshGhost(g) {
			// the callee is proved for every value of its ghost parameter that satisfies this clause;
			// with an arbitrary ghost value the clause becomes a hypothesis of the postconditions
			ghostHyps = append(ghostHyps, g)
			continue
		}
		t.oblige("pre", fmt.Sprintf("%s.%s", site, labelOr(r.Label, "req")), tags, fr.curReach, g, pos, "precondition of "+cname)
	}
	// havoc
	w := map[string]string{}
	for k, v := range writes {
		w[k] = v
	}
	for _, it := range c.Modifies {
		name := it.Atom
		if it.IsL && len(it.List) > 0 {
			name = it.List[0].Atom
		}
		if name == "everything" {
			t.havocAll(fr)
			continue
		}
		if name == "docheap*" {
			for _, cn := range docHeapComps(t.env) {
				w[cn] = t.env.comps[cn]
			}
			w["alloc"] = "Int"
			w["F_document_Document_fields"] = "(Array Ref Ref)"
			continue
		}
		if name == "ghost*" || name == "heap*" {
			if name == "heap*" {
				w["*"] = ""
			} else {
				w["ghost*"] = ""
			}
			continue
		}
		if srt, ok := t.P.ghostComps[name]; ok {
			w[name] = srt
		} else if srt, ok := t.env.comps[name]; ok {
			w[name] = srt
		} else if srt, ok := t.P.stateFunSorts[name]; ok {
			w[name] = srt
		} else if name == "@" {
			for k, v := range t.P.declaredWrites(t.env, &Contract{Modifies: []*Sx{it}, Extra: map[string][]*Sx{}}) {
				w[k] = v
			}
		} else if name != "" {
			t.errorf("%s: modifies names unknown component %s", c.Key, name)
		}
	}
	for _, x := range c.Extra["writes"] {
		for _, a := range sxAtoms(x) {
			if srt, ok := t.P.ghostComps[a]; ok {
				w[a] = srt
			} else if srt, ok := t.env.comps[a]; ok {
				w[a] = srt
			}
		}
	}
	if len(c.Extra["allocates"]) > 0 {
		w["alloc"] = "Int"
	}
	// "extra unchanged (comp ...)": the callee proves these components equal to their entry value as whole arrays
	// (obligation frame.unchanged.<comp> in its own verification), so they are not havocked here
	for _, x := range c.Extra["unchanged"] {
		for _, a := range sxAtoms(x) {
			delete(w, a)
		}
	}
	t.havocComps(fr, w, c, sc)
	// results
	res := t.freshResults(fr, sig, cname)
	post := &SpecCtx{t: t, fr: nil, st: fr.st, old: pre, names: sc.names, callerFr: fr}
	for i, r := range res {
		post.results = append(post.results, specVal{r, sig.Results().At(i).Type()})
	}
	for _, eu := range exitUpd {
		comp := eu[0].Atom
		if srt, ok := t.P.ghostComps[comp]; ok {
			t.env.Comp(comp, srt)
			// the callee's exit update fixes the entry of comp at the given index
			if eu[1].IsAtom() && eu[1].Atom == "-" {
				t.assume(fr.curReach, fmt.Sprintf("(= %s %s)", fr.st.get(comp), post.expand(eu[2])))
			} else {
				t.assume(fr.curReach, fmt.Sprintf("(= (select %s %s) %s)", fr.st.get(comp), post.expand(eu[1]), post.expand(eu[2])))
			}
		}
	}
	for _, e := range c.Ensures {
		if e.Kind == "ensures-assumed" {
			t.trustedUsed[c.Key+"#"+e.Label+" (assumed clause)"] = true
		}
		ens := post.expandBool(e.Expr)
		if len(ghostHyps) > 0 && mentionsFreshGhost(ens) {
			ens = fmt.Sprintf("(=> %s %s)", andTerms(ghostHyps...), ens)
		}
		t.assume(fr.curReach, ens)
	}
	return res
}

// ---------------------------------------------------------------------------------
// interface method calls

func (t *Trans) execInvoke(fr *Frame, c *ssa.CallCommon, args []string, pos token.Pos) []string {
	recv := fr.val(c.Value)
	recvT := c.Value.Type()
	// 1. receiver's concrete type known statically
	if mi, ok := c.Value.(*ssa.MakeInterface); ok {
		if f := t.P.prog.LookupMethod(mi.X.Type(), c.Method.Pkg(), c.Method.Name()); f != nil {
			all := append([]string{fr.val(mi.X)}, args...)
			avs := append([]ssa.Value{mi.X}, c.Args...)
			return t.callStatic(fr, f, avs, all, nil, pos)
		}
	}
	t.safe(fr, "nil-interface-call."+c.Method.Name(), fmt.Sprintf("(not (= %s vnil))", recv), pos)
	if t.P.cloverIface(recvT) {
		t.assume(fr.curReach, fmt.Sprintf("(=> ((_ is vref) %s) (not (= (rval %s) null)))", recv, recv))
	}
	// 2. interface method contract
	if ic := t.P.IfaceContract(recvT, c.Method); ic != nil {
		sig := c.Method.Type().(*types.Signature)
		names := []string{"self"}
		ptypes := []types.Type{recvT}
		for i := 0; i < sig.Params().Len(); i++ {
			n := sig.Params().At(i).Name()
			if n == "" || n == "_" {
				n = fmt.Sprintf("a%d", i)
			}
			names = append(names, n)
			ptypes = append(ptypes, sig.Params().At(i).Type())
		}
		if len(ic.Params) > 0 {
			for i := range ic.Params {
				if i+1 < len(names) {
					names[i+1] = ic.Params[i]
				}
			}
		}
		return t.applyContract(fr, ic, ifaceName(recvT)+"."+c.Method.Name(), sig, names, ptypes, append([]string{recv}, args...), nil, pos)
	}
	// 3. closed-world dispatch over the implementations in the clover packages
	it := recvT.Underlying().(*types.Interface)
	impls := t.P.implementers(it)
	if len(impls) == 0 {
		t.note("invoke %s.%s: no implementation known, havocked", recvT, c.Method.Name())
		t.havocAll(fr)
		return t.freshResults(fr, c.Signature(), c.Method.Name())
	}
	pre := fr.st
	saveReach := fr.curReach
	type alt struct {
		guard string
		res   []string
		st    State
	}
	var alts []alt
	var guards []string
	for _, T := range impls {
		f := t.P.prog.LookupMethod(T, c.Method.Pkg(), c.Method.Name())
		if f == nil {
			continue
		}
		ok, payload := t.unbox(recv, T)
		g := t.define("Bool", fr.id+"!disp", ok)
		guards = append(guards, g)
		fr.st = pre
		fr.curReach = t.define("Bool", fr.id+"!dreach", andTerms(saveReach, g))
		pv := t.define(t.env.SortOf(T), fr.id+"!recv", payload)
		res := t.callStatic(fr, f, append([]ssa.Value{nil}, c.Args...), append([]string{pv}, args...), nil, pos)
		alts = append(alts, alt{g, res, fr.st})
	}
	fr.curReach = saveReach
	t.assume(saveReach, orTerms(guards)) // closed world (A12)
	var edges []inEdge
	for i, a := range alts {
		edges = append(edges, inEdge{i, nil, a.guard, a.st})
	}
	fr.st = t.mergeStates(edges, "disp")
	sig := c.Signature()
	var out []string
	for k := 0; k < sig.Results().Len(); k++ {
		vals := make([]string, len(alts))
		for i, a := range alts {
			if k < len(a.res) {
				vals[i] = a.res[k]
			} else {
				vals[i] = t.env.Zero(sig.Results().At(k).Type())
			}
		}
		out = append(out, t.define(t.env.SortOf(sig.Results().At(k).Type()), fr.id+"!dres", iteChain(edges, vals)))
	}
	return out
}

func ifaceName(t types.Type) string {
	if n, ok := t.(*types.Named); ok {
		return n.Obj().Name()
	}
	return "iface"
}

// callDynamic: call through a function value of unknown identity.
func (t *Trans) callDynamic(fr *Frame, c *ssa.CallCommon, args []string, pos token.Pos) []string {
	fv := fr.val(c.Value)
	sig := c.Signature()
	fieldCB := false
	if u, ok := c.Value.(*ssa.UnOp); ok && u.Op == token.MUL {
		if fa, ok := u.X.(*ssa.FieldAddr); ok {
			if t.P.cbField(fa.X.Type().Underlying().(*types.Pointer).Elem(), fa.Field) != nil {
				fieldCB = true // every value stored in such a field was checked to be a function satisfying its contract
			}
		}
	}
	if !fieldCB {
		t.safe(fr, "nil-func-call", fmt.Sprintf("(not (= %s fnil))", fv), pos)
	}
	// a function parameter of the function under verification: its callback contract
	if p, ok := c.Value.(*ssa.Parameter); ok && fr.contract != nil {
		if cb := t.P.cbParam(fr.contract.Key, p.Name()); cb != nil {
			names, ptypes := sigNames(sig, cb)
			old := fr.entrySt
			t.reqOld = &old
			t.selfTerm = fv
			res := t.applyContract(fr, cb, "callback."+p.Name(), sig, names, ptypes, args, nil, pos)
			t.reqOld = nil
			return res
		}
	}
	// a function obtained by a type assertion (MatchFunc predicates): contract "<function>@predicate"
	if _, ok := c.Value.(*ssa.TypeAssert); ok && fr.contract != nil {
		if cb := t.P.cbParam(fr.contract.Key, "predicate"); cb != nil {
			names, ptypes := sigNames(sig, cb)
			t.selfTerm = fv
			return t.applyContract(fr, cb, "callback.predicate", sig, names, ptypes, args, nil, pos)
		}
	}
	// a captured function parameter of the enclosing function: that parameter's callback contract
	if u, ok := c.Value.(*ssa.UnOp); ok && u.Op == token.MUL {
		if fv, ok := u.X.(*ssa.FreeVar); ok && fr.fn.Parent() != nil && t.P.finalFV[fv] {
			for g := fr.fn.Parent(); g != nil; g = g.Parent() {
				if cb := t.P.cbParam(t.P.FnKey(g), fv.Name()); cb != nil {
					names, ptypes := sigNames(sig, cb)
					cb2 := *cb
					// relational clauses (mentioning the enclosing function's entry state) are not available inside the closure
					cb2.Requires = cb.Requires[:cb.NImportedReq]
					t.selfTerm = fr.val(c.Value)
					return t.applyContract(fr, &cb2, "callback."+fv.Name(), sig, names, ptypes, args, nil, pos)
				}
			}
		}
	}
	// a function stored in a struct field with a field callback contract
	if u, ok := c.Value.(*ssa.UnOp); ok && u.Op == token.MUL {
		if fa, ok := u.X.(*ssa.FieldAddr); ok {
			st := fa.X.Type().Underlying().(*types.Pointer).Elem()
			if cb := t.P.cbField(st, fa.Field); cb != nil {
				names, ptypes := sigNames(sig, cb)
				t.selfTerm = fv
				return t.applyContract(fr, cb, "callback."+st.Underlying().(*types.Struct).Field(fa.Field).Name(), sig, names, ptypes, args, nil, pos)
			}
		}
	}
	t.note("%s: call through function value %s of unknown identity: all state havocked", fr.path, c.Value.Name())
	t.havocAll(fr)
	return t.freshResults(fr, sig, "dyn")
}

// ---------------------------------------------------------------------------------
// builtins

func (t *Trans) leafComps(elem types.Type) []string {
	if !isStructType(elem) {
		return []string{t.env.cellComp(elem)}
	}
	var out []string
	st := elem.Underlying().(*types.Struct)
	for i := 0; i < st.NumFields(); i++ {
		if isStructType(st.Field(i).Type()) {
			t.note("append on slice of %s with nested struct field: nested part not copied (abstracted)", elem)
			continue
		}
		out = append(out, t.env.fieldComp(elem, i))
	}
	return out
}

func (t *Trans) execBuiltin(fr *Frame, b *ssa.Builtin, c *ssa.CallCommon, args []string, pos token.Pos) []string {
	env := t.env
	switch b.Name() {
	case "len", "cap":
		at := c.Args[0].Type()
		a := args[0]
		switch env.SortOf(at) {
		case "Str":
			t.uses["strings"] = true
			return []string{t.define(sortBV64, "len", fmt.Sprintf("(slen %s)", a))}
		case "Bytes":
			t.uses["strings"] = true
			return []string{t.define(sortBV64, "len", fmt.Sprintf("(blen %s)", a))}
		case "Slice":
			if b.Name() == "cap" {
				return []string{fmt.Sprintf("(slcap %s)", a)}
			}
			return []string{t.define(sortBV64, "len", fmt.Sprintf("(sllen %s)", a))}
		case "Ref":
			if _, isMap := at.Underlying().(*types.Map); isMap {
				_, _, ln := env.mapComps(at)
				v := t.define(sortBV64, "len", fmt.Sprintf("(ite (= %s null) %s (select %s %s))", a, zero64, fr.st.get(ln), a))
				t.assume(fr.curReach, fmt.Sprintf("(and (bvsle %s %s) (bvslt %s LENMAX))", zero64, v, v))
				return []string{v}
			}
		}
	case "append":
		st := c.Args[0].Type()
		if isByteSlice(st) {
			t.uses["strings"] = true
			second := args[1]
			if env.SortOf(c.Args[1].Type()) == "Bytes" {
				second = fmt.Sprintf("(bytesStr %s)", args[1])
			}
			return []string{t.define("Bytes", "app", fmt.Sprintf("(ite (and ((_ is bnil) %s) (= (slen %s) %s)) bnil (bmk (scat (bytesStr %s) %s)))", args[0], second, zero64, args[0], second))}
		}
		elem := st.Underlying().(*types.Slice).Elem()
		s1, s2 := args[0], args[1]
		l1 := fmt.Sprintf("(sllen %s)", s1)
		nl := t.define(sortBV64, "applen", fmt.Sprintf("(bvadd %s (sllen %s))", l1, s2))
		r := t.newObject(fr, fr.id+"!appb")
		cp := t.freshConst(sortBV64, "appcap")
		t.assume("true", fmt.Sprintf("(and (bvule %s %s) (bvult %s LENMAX))", nl, cp, cp))
		if lin, why := appendLinear(c, t.curCallValue); lin && os.Getenv("GOVC_APPEND_INPLACE") != "1" {
			// the `v = append(v, ...)` idiom on a value nobody else appends to or reslices: the cells behind the
			// length are visible through no other header in use (assumption A18 for what the syntactic check
			// cannot see), so writing them in place and copying are indistinguishable; modelled as copying
			t.note("%s: append at %s modelled as copying (%s)", fr.path, t.P.prog.Fset.Position(pos), why)
			res := t.define("Slice", "app", fmt.Sprintf("(mk-slice %s %s %s %s)", r, zero64, nl, cp))
			for _, comp := range t.leafComps(elem) {
				n := t.freshConst(env.comps[comp], comp+"@app")
				old := fr.st.get(comp)
				t.assume("true", fmt.Sprintf("(forall ((p!a Ref)) (! (= (select %s p!a) (ite (and (isidx p!a) (= (ibase p!a) %s)) (ite (bvult (iidx p!a) %s) (select %s (selemaddr %s (iidx p!a))) (select %s (selemaddr %s (bvsub (iidx p!a) %s)))) (select %s p!a))) :pattern ((select %s p!a))))",
					n, r, l1, old, s1, old, s2, l1, old, n))
				fr.st = fr.st.set(comp, n)
			}
			return []string{res}
		}
		// Go's append: when the capacity of the first argument suffices the new elements are written IN PLACE behind
		// its length (visible through every slice sharing the array); otherwise the result is a fresh array holding
		// the old and the new elements.
		t.note("%s: append at %s modelled in place (not the v = append(v, ...) idiom)", fr.path, t.P.prog.Fset.Position(pos))
		reuse := t.define("Bool", "appreuse", fmt.Sprintf("(bvule %s (slcap %s))", nl, s1))
		res := t.define("Slice", "app", fmt.Sprintf("(ite %s (mk-slice (sbase %s) (soff %s) %s (slcap %s)) (mk-slice %s %s %s %s))", reuse, s1, s1, nl, s1, r, zero64, nl, cp))
		for _, comp := range t.leafComps(elem) {
			n := t.freshConst(env.comps[comp], comp+"@app")
			old := fr.st.get(comp)
			inplace := fmt.Sprintf("(ite (and (isidx p!a) (= (ibase p!a) (sbase %s)) (bvule (bvadd (soff %s) %s) (iidx p!a)) (bvult (iidx p!a) (bvadd (soff %s) %s))) (select %s (selemaddr %s (bvsub (iidx p!a) (bvadd (soff %s) %s)))) (select %s p!a))",
				s1, s1, l1, s1, nl, old, s2, s1, l1, old)
			fresh := fmt.Sprintf("(ite (and (isidx p!a) (= (ibase p!a) %s)) (ite (bvult (iidx p!a) %s) (select %s (selemaddr %s (iidx p!a))) (select %s (selemaddr %s (bvsub (iidx p!a) %s)))) (select %s p!a))",
				r, l1, old, s1, old, s2, l1, old)
			t.assume("true", fmt.Sprintf("(forall ((p!a Ref)) (! (= (select %s p!a) (ite %s %s %s)) :pattern ((select %s p!a))))", n, reuse, inplace, fresh, n))
			fr.st = fr.st.set(comp, n)
		}
		return []string{res}
	case "delete":
		m, k := args[0], args[1]
		has, _, ln := env.mapComps(c.Args[0].Type())
		had := fmt.Sprintf("(select (select %s %s) %s)", fr.st.get(has), m, k)
		nl := t.define(env.comps[ln], ln+"@s", fmt.Sprintf("(store %s %s (ite %s (bvsub (select %s %s) #x0000000000000001) (select %s %s)))", fr.st.get(ln), m, had, fr.st.get(ln), m, fr.st.get(ln), m))
		nh := t.define(env.comps[has], has+"@s", fmt.Sprintf("(store %s %s (store (select %s %s) %s false))", fr.st.get(has), m, fr.st.get(has), m, k))
		fr.st = fr.st.set(ln, nl).set(has, nh)
		return nil
	case "print", "println":
		return nil
	case "ssa:wrapnilchk":
		t.safe(fr, "nil-receiver", fmt.Sprintf("(not (= %s null))", args[0]), pos)
		return []string{args[0]}
	}
	t.note("%s: builtin %s abstracted", fr.path, b.Name())
	return t.freshResults(fr, c.Signature(), b.Name())
}

// sprintfTerm translates fmt.Sprintf with a constant format made of literals, %s and %d into the
// corresponding concatenation (assumed contract of Sprintf for that fragment, DESIGN.md section 3.1).
func (t *Trans) sprintfTerm(fr *Frame, argVals []ssa.Value) (string, bool) {
	fc, ok := argVals[0].(*ssa.Const)
	if !ok || fc.Value == nil {
		return "", false
	}
	format := constant.StringVal(fc.Value)
	// recover the variadic arguments: slice of a local array filled by stores
	var elems []ssa.Value
	if sl, ok := argVals[1].(*ssa.Slice); ok {
		if al, ok := sl.X.(*ssa.Alloc); ok {
			arr := al.Type().(*types.Pointer).Elem().Underlying().(*types.Array)
			elems = make([]ssa.Value, arr.Len())
			for _, r := range *al.Referrers() {
				ia, ok := r.(*ssa.IndexAddr)
				if !ok {
					continue
				}
				ic, ok := ia.Index.(*ssa.Const)
				if !ok {
					return "", false
				}
				for _, r2 := range *ia.Referrers() {
					if st, ok := r2.(*ssa.Store); ok && st.Addr == ia {
						elems[ic.Int64()] = st.Val
					}
				}
			}
		}
	} else if c, ok := argVals[1].(*ssa.Const); !ok || c.Value != nil {
		return "", false
	}
	t.uses["strings"] = true
	var parts []string
	lit := ""
	flush := func() {
		if lit != "" {
			parts = append(parts, t.env.Lit(lit))
			lit = ""
		}
	}
	ai := 0
	for i := 0; i < len(format); i++ {
		if format[i] != '%' {
			lit += string(format[i])
			continue
		}
		if i+1 >= len(format) {
			return "", false
		}
		i++
		switch format[i] {
		case '%':
			lit += "%"
		case 's', 'd':
			if ai >= len(elems) || elems[ai] == nil {
				return "", false
			}
			mi, ok := elems[ai].(*ssa.MakeInterface)
			if !ok {
				return "", false
			}
			ai++
			flush()
			switch t.env.SortOf(mi.X.Type()) {
			case "Str":
				parts = append(parts, fr.val(mi.X))
			case "Bytes":
				parts = append(parts, fmt.Sprintf("(bytesStr %s)", fr.val(mi.X)))
			case sortBV64:
				parts = append(parts, fmt.Sprintf("(itoa %s)", fr.val(mi.X)))
			default:
				return "", false
			}
		default:
			return "", false
		}
	}
	flush()
	if len(parts) == 0 {
		return "sempty", true
	}
	term := parts[0]
	for _, p := range parts[1:] {
		term = fmt.Sprintf("(scat %s %s)", term, p)
	}
	return t.define("Str", "sprintf", term), true
}

// ghostBinding: the contract of the function under verification may say how a callee's ghost
// parameter is instantiated at its call sites:  extra bind (<callee> <ghost> <expr>)
func (t *Trans) ghostBinding(fr *Frame, callee, ghost string) (string, bool) {
	if t.topC == nil {
		return "", false
	}
	for _, b := range t.topC.Extra["bind"] {
		if !b.IsL || len(b.List) != 3 {
			continue
		}
		if b.List[1].Atom != ghost || !strings.HasSuffix(callee, b.List[0].Atom) {
			continue
		}
		sc := &SpecCtx{t: t, fr: fr, st: fr.st, old: fr.entrySt, at: fr.curBlock}
		return sc.expand(b.List[2]), true
	}
	return "", false
}

func (t *Trans) takeSnapshots(fr *Frame, callee string) {
	if t.topC == nil || fr != t.topFrame {
		return
	}
	for _, sn := range t.topC.Snapshots {
		if strings.HasSuffix(callee, sn[1]) {
			if _, done := t.snapshots[sn[0]]; !done {
				t.snapshots[sn[0]] = fr.st
			}
		}
	}
	// assume-after <callee> label: e  -- an ASSUMED fact about the state right after calls to that callee, written
	// with the caller's variables (for library calls whose effect depends on a function argument, e.g. sort.Slice
	// and its less function). Listed in the evidence as an assumption.
	for _, aa := range t.topC.Extra["assume-after"] {
		if !aa.IsL || len(aa.List) != 3 || !strings.HasSuffix(callee, aa.List[0].Atom) {
			continue
		}
		sc := &SpecCtx{t: t, fr: fr, st: fr.st, old: fr.entrySt, at: fr.curBlock}
		t.assume(fr.curReach, sc.expandBool(aa.List[2]))
		t.trustedUsed[t.topC.Key+"#"+aa.List[1].Atom+" (assumed after "+aa.List[0].Atom+")"] = true
	}
}

// appendLinear: syntactic check that an append call is the linear idiom `v = append(v, ...)`:
// the first argument is fresh (nil, make, another append's result), a register variable (phi of such values), or a
// load from a cell the result is stored back to; and the first argument is neither appended to elsewhere nor
// resliced. Then no header in use afterwards exposes the cells behind its length.
func appendLinear(c *ssa.CallCommon, call ssa.Value) (bool, string) {
	if call == nil || len(c.Args) == 0 {
		return false, ""
	}
	x := c.Args[0]
	isAppend := func(v ssa.Value) bool {
		cl, ok := v.(*ssa.Call)
		if !ok {
			return false
		}
		b, ok := cl.Call.Value.(*ssa.Builtin)
		return ok && b.Name() == "append"
	}
	var fresh func(v ssa.Value, depth int) bool
	fresh = func(v ssa.Value, depth int) bool {
		if depth > 6 {
			return false
		}
		switch y := v.(type) {
		case *ssa.Const:
			return y.Value == nil
		case *ssa.MakeSlice:
			return true
		case *ssa.Call:
			return isAppend(y)
		case *ssa.Slice:
			_, isAlloc := y.X.(*ssa.Alloc) // variadic argument array
			return isAlloc
		case *ssa.Phi:
			for _, e := range y.Edges {
				if e != v && !fresh(e, depth+1) {
					return false
				}
			}
			return true
		}
		return false
	}
	sameCell := func(a, b ssa.Value) bool {
		if a == b {
			return true
		}
		fa, ok1 := a.(*ssa.FieldAddr)
		fb, ok2 := b.(*ssa.FieldAddr)
		return ok1 && ok2 && fa.X == fb.X && fa.Field == fb.Field
	}
	why := ""
	switch y := x.(type) {
	case *ssa.UnOp:
		if y.Op != token.MUL {
			return false, ""
		}
		stored := false
		if refs := call.Referrers(); refs != nil {
			for _, r := range *refs {
				if st, ok := r.(*ssa.Store); ok && st.Val == call && sameCell(st.Addr, y.X) {
					stored = true
				}
			}
		}
		if !stored {
			return false, ""
		}
		why = "result stored back to the cell the argument was loaded from"
	default:
		if !fresh(x, 0) {
			return false, ""
		}
		why = "argument is nil, a make, an append result or a local variable holding such values"
	}
	if refs := x.Referrers(); refs != nil {
		for _, r := range *refs {
			switch z := r.(type) {
			case *ssa.Call:
				if z != call && isAppend(z) && z.Call.Args[0] == x {
					return false, ""
				}
			case *ssa.Slice:
				return false, ""
			}
		}
	}
	return true, why
}
