; requires: values cmporder
; Lexicographic comparison of two generic slices (internal/compare.go compareSlices, C10): compare element by
; element; the first difference decides; when one runs out, the shorter is smaller. cmpSl is the comparison of
; the suffixes starting at index i, in the heap of the call (opaque; "reveal" unfolds one step).
; comp: C_interfaceBB (Array Ref Val)
(declare-fun cmpSl ((Array Ref Val) Slice Slice (_ BitVec 64)) Int)
; statefun: cmpSl C_interfaceBB
; statefun: cmpSl!def C_interfaceBB
(define-fun cmpSl!def ((cib (Array Ref Val)) (a Slice) (b Slice) (i (_ BitVec 64))) Int
  (ite (or (bvsge i (sllen a)) (bvsge i (sllen b)))
       (ite (bvslt (sllen a) (sllen b)) (- 1) (ite (= (sllen a) (sllen b)) 0 1))
       (ite (not (= (cmpS (select cib (selemaddr a i)) (select cib (selemaddr b i))) 0))
            (cmpS (select cib (selemaddr a i)) (select cib (selemaddr b i)))
            (cmpSl cib a b (bvadd i #x0000000000000001)))))
