; ---- govc base prelude: sorts shared by every verification condition ----
; References: allocation id of the object + access path inside it (fields of embedded structs,
; elements of slice backing arrays). rid is a plain selector; injectivity of addresses comes
; from datatype injectivity, so no quantified axiom is needed.
(declare-datatype Path ((pnil) (pfld (pfb Path) (pfi Int)) (pidx (pib Path) (pii (_ BitVec 64)))))
(declare-datatype Ref ((mkref (rid Int) (rpath Path))))
(define-fun null () Ref (mkref 0 pnil))
(define-fun obj ((n Int)) Ref (mkref n pnil))
(define-fun fld ((r Ref) (i Int)) Ref (mkref (rid r) (pfld (rpath r) i)))
(define-fun idx ((r Ref) (i (_ BitVec 64))) Ref (mkref (rid r) (pidx (rpath r) i)))
(define-fun isobj ((r Ref)) Bool ((_ is pnil) (rpath r)))
(define-fun isidx ((r Ref)) Bool ((_ is pidx) (rpath r)))
(define-fun ibase ((r Ref)) Ref (mkref (rid r) (pib (rpath r))))
(define-fun iidx ((r Ref)) (_ BitVec 64) (pii (rpath r)))

(declare-sort Str 0)
(declare-const sempty Str)
(declare-fun slen (Str) (_ BitVec 64))
(declare-fun scat (Str Str) Str)
(declare-fun strCmp (Str Str) Int)
(declare-fun hasPrefix (Str Str) Bool)
(declare-fun ssub (Str (_ BitVec 64) (_ BitVec 64)) Str) ; s[lo:hi]
(declare-fun sbyte (Str (_ BitVec 64)) (_ BitVec 8))
(declare-fun sbyte1 ((_ BitVec 8)) Str) ; one-byte string
(assert (= (slen sempty) #x0000000000000000))

(declare-datatype Bytes ((bnil) (bmk (bstr Str))))
(define-fun bytesStr ((b Bytes)) Str (ite ((_ is bnil) b) sempty (bstr b)))
(define-fun blen ((b Bytes)) (_ BitVec 64) (slen (bytesStr b)))

(declare-datatype Slice ((mk-slice (sbase Ref) (soff (_ BitVec 64)) (sllen (_ BitVec 64)) (slcap (_ BitVec 64)))))
(define-fun nilslice () Slice (mk-slice null #x0000000000000000 #x0000000000000000 #x0000000000000000))
(define-fun LENMAX () (_ BitVec 64) #x0000010000000000)
(define-fun slice_wf ((s Slice)) Bool
  (and (bvule (sllen s) (slcap s)) (bvult (slcap s) LENMAX) (bvult (soff s) LENMAX)
       (=> (= (sbase s) null) (= s nilslice))))
; element address: uninterpreted symbol (so that it can serve as a quantifier pattern) with its definition as an axiom
(declare-fun selemaddr (Slice (_ BitVec 64)) Ref)
(assert (forall ((s Slice) (i (_ BitVec 64))) (! (= (selemaddr s i) (idx (sbase s) (bvadd (soff s) i))) :pattern ((selemaddr s i)))))

(declare-datatype Func ((fnil) (fclo (fid Int) (fenv Ref))))

(declare-sort Time 0)
(declare-const timeZero Time)
(declare-fun unixNano (Time) (_ BitVec 64))

(declare-datatype Val (
  (vnil)
  (vint (vty Int) (vbits (_ BitVec 64)))
  (vflt (fty Int) (fval (_ FloatingPoint 11 53)))
  (vstr (sty Int) (sval Str))
  (vbool (bty Int) (bval Bool))
  (vtime (tval Time))
  (vref (rty Int) (rval Ref))
  (vslice (lty Int) (lval Slice))
  (vbytes (yty Int) (yval Bytes))
  (vfunc (nty Int) (nval Func))
  (vopq (oty Int) (oval Int))))
; hint(t): always true; lets a contract mention a term so that quantifier instantiation can see it
(declare-fun hint (Str) Bool)
(assert (forall ((x Str)) (! (hint x) :pattern ((hint x)))))
(declare-fun hintI (Int) Bool)
(assert (forall ((x Int)) (! (hintI x) :pattern ((hintI x)))))
