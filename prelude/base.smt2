; ---- govc base prelude: sorts shared by every verification condition ----
(declare-datatype Ref ((null) (obj (oid Int)) (fld (fbase Ref) (fidx Int)) (idx (ibase Ref) (iidx (_ BitVec 64)))))
(declare-fun rid (Ref) Int)
(assert (= (rid null) 0))
(assert (forall ((n Int)) (! (= (rid (obj n)) n) :pattern ((obj n)))))
(assert (forall ((r Ref) (i Int)) (! (= (rid (fld r i)) (rid r)) :pattern ((fld r i)))))
(assert (forall ((r Ref) (i (_ BitVec 64))) (! (= (rid (idx r i)) (rid r)) :pattern ((idx r i)))))

(declare-sort Str 0)
(declare-const sempty Str)
(declare-fun slen (Str) (_ BitVec 64))
(declare-fun scat (Str Str) Str)
(declare-fun strCmp (Str Str) Int)
(declare-fun hasPrefix (Str Str) Bool)
(declare-fun ssub (Str (_ BitVec 64) (_ BitVec 64)) Str) ; s[lo:hi]
(declare-fun sbyte (Str (_ BitVec 64)) (_ BitVec 8))
(declare-fun sbyte1 ((_ BitVec 8)) Str) ; one-byte string
(assert (= (slen sempty) #x0000000000000000))

(declare-datatype Bytes ((bnil) (bmk (bstr Str))))
(define-fun bytesStr ((b Bytes)) Str (ite ((_ is bnil) b) sempty (bstr b)))
(define-fun blen ((b Bytes)) (_ BitVec 64) (slen (bytesStr b)))

(declare-datatype Slice ((mk-slice (sbase Ref) (soff (_ BitVec 64)) (sllen (_ BitVec 64)) (slcap (_ BitVec 64)))))
(define-fun nilslice () Slice (mk-slice null #x0000000000000000 #x0000000000000000 #x0000000000000000))
(define-fun LENMAX () (_ BitVec 64) #x0000010000000000)
(define-fun slice_wf ((s Slice)) Bool
  (and (bvule (sllen s) (slcap s)) (bvult (slcap s) LENMAX) (bvult (soff s) LENMAX)
       (=> (= (sbase s) null) (= s nilslice))))
(define-fun selemaddr ((s Slice) (i (_ BitVec 64))) Ref (idx (sbase s) (bvadd (soff s) i)))

(declare-datatype Func ((fnil) (fclo (fid Int) (fenv Ref))))

(declare-sort Time 0)
(declare-const timeZero Time)
(declare-fun unixNano (Time) (_ BitVec 64))

(declare-datatype Val (
  (vnil)
  (vint (vty Int) (vbits (_ BitVec 64)))
  (vflt (fty Int) (fval (_ FloatingPoint 11 53)))
  (vstr (sty Int) (sval Str))
  (vbool (bty Int) (bval Bool))
  (vtime (tval Time))
  (vref (rty Int) (rval Ref))
  (vslice (lty Int) (lval Slice))
  (vbytes (yty Int) (yval Bytes))
  (vfunc (nty Int) (nval Func))
  (vopq (oty Int) (oval Int))))
