; requires: values
; The specification order cmpS is a total preorder on key-exact canonical values. These facts are
; proved as lemmas (lemmas/order.contracts, tagged C10) for the scalar ranks; for containers they
; rest on the assumed properties of cmpC. They are made available to clients with patterns.
(define-fun kx ((v Val)) Bool (and (canon v) (within53 v)))
(assert (forall ((a Val)) (! (=> (kx a) (= (cmpS a a) 0)) :pattern ((cmpS a a)))))
(assert (forall ((a Val) (b Val)) (! (=> (and (kx a) (kx b)) (= (cmpS a b) (- (cmpS b a)))) :pattern ((cmpS a b)))))
(assert (forall ((a Val) (b Val)) (! (and (<= (- 1) (cmpS a b)) (<= (cmpS a b) 1)) :pattern ((cmpS a b)))))
(assert (forall ((a Val) (b Val) (c Val)) (! (=> (and (kx a) (kx b) (kx c) (<= (cmpS a b) 0) (<= (cmpS b c) 0)) (<= (cmpS a c) 0)) :pattern ((cmpS a b) (cmpS b c)))))
(assert (forall ((a Val) (b Val) (c Val)) (! (=> (and (kx a) (kx b) (kx c) (<= (cmpS a b) 0) (< (cmpS b c) 0)) (< (cmpS a c) 0)) :pattern ((cmpS a b) (cmpS b c)))))
(assert (forall ((a Val) (b Val) (c Val)) (! (=> (and (kx a) (kx b) (kx c) (< (cmpS a b) 0) (<= (cmpS b c) 0)) (< (cmpS a c) 0)) :pattern ((cmpS a b) (cmpS b c)))))
(assert (forall ((a Val)) (! (=> (kx a) (and (<= (cmpS vnil a) 0) (= (= (cmpS a vnil) 0) (= a vnil)))) :pattern ((cmpS vnil a)) :pattern ((cmpS a vnil)))))
