; requires: cmporder
; struct: index.Range
; index ranges (C17): membership of a value in a range, written from the property text and the
; planner's conventions (a nil bound is an open end; (nil,nil,incl,incl) is the nil-only range).
(define-fun rIsNil ((r S_index_Range)) Bool
  (and (= (S_index_Range_Start r) vnil) (= (S_index_Range_End r) vnil) (S_index_Range_StartIncluded r) (S_index_Range_EndIncluded r)))
(define-fun inDom ((r S_index_Range)) Bool
  (or (not (= (S_index_Range_Start r) vnil)) (not (= (S_index_Range_End r) vnil)) (and (S_index_Range_StartIncluded r) (S_index_Range_EndIncluded r))))
(define-fun rLower ((r S_index_Range) (v Val)) Bool
  (or (= (S_index_Range_Start r) vnil) (> (cmpS v (S_index_Range_Start r)) 0)
      (and (S_index_Range_StartIncluded r) (= (cmpS v (S_index_Range_Start r)) 0))))
(define-fun rUpper ((r S_index_Range) (v Val)) Bool
  (or (and (= (S_index_Range_End r) vnil) (not (S_index_Range_EndIncluded r)))
      (and (not (= (S_index_Range_End r) vnil)) (or (< (cmpS v (S_index_Range_End r)) 0) (and (S_index_Range_EndIncluded r) (= (cmpS v (S_index_Range_End r)) 0))))
      (and (= (S_index_Range_End r) vnil) (S_index_Range_EndIncluded r) (= v vnil))))
(define-fun inRange ((r S_index_Range) (v Val)) Bool
  (ite (rIsNil r) (= v vnil) (and (rLower r v) (rUpper r v))))
(define-fun rangeKx ((r S_index_Range)) Bool (and (kx (S_index_Range_Start r)) (kx (S_index_Range_End r))))
