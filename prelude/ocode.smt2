; requires: values docs
; Index key encoding (internal/code.go) over the external orderedcode package (assumption A6):
; orderedcode.Append(buf, x) = buf ++ ocode(x); every code is non-empty. What is verified here is clover's
; composition: which items are appended, in which order, under which conditions.
; comp: C_interfaceBB (Array Ref Val)
(declare-fun ocode (Val) Str)
(assert (forall ((x Val)) (! (not (= (ocode x) sempty)) :pattern ((ocode x)))))
(define-fun ocOK ((x Val)) Bool (or (isU64 x) (isI64 x) (isF64 x) (isStrC x)))
; getEncodeValue: numbers as float64, booleans as 0/1, times as UnixNano, everything else unchanged
(define-fun encVal ((v Val)) Val
  (ite (isGoNum v) (vflt TY_float64 (asF64 v))
  (ite (isBoolC v) (vint TY_uint64 (ite (bval v) #x0000000000000001 #x0000000000000000))
  (ite (isTimeC v) (vint TY_uint64 (unixNano (tval v))) v))))
(define-fun rankTag ((v Val)) Val (vint TY_uint64 ((_ int2bv 64) (rankOf v))))
; orderedCodePrimitive(buf, v, includeType)
(define-fun ocPrim ((b Str) (v Val) (it Bool)) Str
  (let ((b1 (ite it (scat b (ocode (rankTag v))) b)))
    (ite (= v vnil) b1 (scat b1 (ocode (encVal v))))))
; containers: the concatenation of the element codes, characterised by orderedCodeSlice/orderedCodeObject (assumed)
(declare-fun ocContainer (Val) Str)
(define-fun ocAny ((b Str) (v Val) (it Bool)) Str (ite (or (isMapC v) (isSliceC v)) (scat b (ocContainer v)) (ocPrim b v it)))
; the index key of a value: what OrderedCode(prefix, v) appends
(assert (forall ((v Val)) (! (= (keyOf v) (ite (or (isMapC v) (isSliceC v)) (ocContainer v) (ite (= v vnil) sempty (ocode (encVal v))))) :pattern ((keyOf v)))))
; Encoding of a generic slice (internal/code.go orderedCodeSlice): the codes of the elements, each with its type tag,
; are accumulated; slEnc(s, i) is the accumulated encoding of the first i elements (opaque; "reveal" unfolds a step)
(declare-fun slEnc ((Array Ref Val) Slice (_ BitVec 64)) Str)
; statefun: slEnc C_interfaceBB
; statefun: slEnc!def C_interfaceBB
(define-fun slEnc!def ((cib (Array Ref Val)) (s Slice) (i (_ BitVec 64))) Str
  (ite (bvsle i #x0000000000000000) sempty
       (ocAny (slEnc cib s (bvsub i #x0000000000000001)) (select cib (selemaddr s (bvsub i #x0000000000000001))) true)))
