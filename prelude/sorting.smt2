; requires: docs cmporder
; Sort-key comparison of two documents on one sort option (C08): an absent field orders before every present
; value (together with nothing else), present values by the specification order; direction -1 reverses.
; (Property text: "an absent field ordering together with nil before every other value": absent < present.)
(define-fun keyCmp ((a Doc) (b Doc) (f Str)) Int
  (ite (and (not (dhas a f)) (dhas b f)) (- 1)
  (ite (and (dhas a f) (not (dhas b f))) 1
  (ite (and (dhas a f) (dhas b f)) (cmpS (dget a f) (dget b f)) 0))))
; comp: F_query_SortOption_Field (Array Ref Str)
; comp: F_query_SortOption_Direction (Array Ref (_ BitVec 64))
; statefun: optCmp F_query_SortOption_Field F_query_SortOption_Direction
(define-fun optCmp ((ff (Array Ref Str)) (dd (Array Ref (_ BitVec 64))) (opts Slice) (i (_ BitVec 64)) (a Doc) (b Doc)) Int
  (* (keyCmp a b (select ff (selemaddr opts i))) (ite (bvslt (select dd (selemaddr opts i)) #x0000000000000000) (- 1) 1)))
; window of a result sequence (C08, C09): how many of `total` documents survive Skip(skip).Limit(limit)
(define-fun winLen ((total (_ BitVec 64)) (skip (_ BitVec 64)) (limit (_ BitVec 64))) (_ BitVec 64)
  (let ((rest (ite (bvslt (bvsub total skip) #x0000000000000000) #x0000000000000000 (bvsub total skip))))
    (ite (and (bvsge limit #x0000000000000000) (bvslt limit rest)) limit rest)))
; lexicographic comparison of two documents on a list of sort options, from option k on (opaque; "reveal" unfolds one
; step): the first option on which the documents do not tie decides, with its direction; 0 if all tie
(declare-fun lexFrom ((Array Ref Str) (Array Ref (_ BitVec 64)) Slice (_ BitVec 64) Doc Doc) Int)
; statefun: lexFrom F_query_SortOption_Field F_query_SortOption_Direction
; statefun: lexFrom!def F_query_SortOption_Field F_query_SortOption_Direction
(define-fun lexFrom!def ((ff (Array Ref Str)) (dd (Array Ref (_ BitVec 64))) (opts Slice) (k (_ BitVec 64)) (a Doc) (b Doc)) Int
  (ite (bvsge k (sllen opts)) 0
       (ite (not (= (optCmp ff dd opts k a b) 0)) (sign3 (optCmp ff dd opts k a b))
            (lexFrom ff dd opts (bvadd k #x0000000000000001) a b))))
