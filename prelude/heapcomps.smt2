; Heap components that contracts mention by name (sorts must agree with what govc derives from the Go types).
; comp: C_Pgithub.com.ostafen.clover.v2.document.Document (Array Ref Ref)
; comp: C_LJPgithub.com.ostafen.clover.v2.document.Document (Array Ref Slice)
; comp: C_string (Array Ref Str)
; comp: C_int (Array Ref (_ BitVec 64))
; comp: F_clover_skipLimitNode_skipped (Array Ref (_ BitVec 64))
; comp: F_clover_skipLimitNode_consumed (Array Ref (_ BitVec 64))
; comp: F_clover_sortNode_docs (Array Ref Slice)
