; requires: keys
; Catalog view of collection metadata (C14, C06, C09): the stored JSON of a collectionMetadata value is an
; abstract catalog entry (encoding/json round trip assumed, A8).
; struct: clover.collectionMetadata
(declare-sort Cat 0)
(declare-fun catHas (Cat Str) Bool)
(declare-fun catSize (Cat) (_ BitVec 64))
(declare-fun encMeta (Cat) Str)
(declare-fun decMeta (Str) Cat)
(assert (forall ((c Cat)) (! (= (decMeta (encMeta c)) c) :pattern ((encMeta c)))))
; comp: F_clover_collectionMetadata_Size (Array Ref (_ BitVec 64))
; comp: F_clover_collectionMetadata_Indexes (Array Ref Slice)
; comp: F_index_Info_Field (Array Ref Str)
(declare-fun metaViewF ((Array Ref (_ BitVec 64)) (Array Ref Slice) (Array Ref Str) Ref) Cat)
; statefun: metaView F_clover_collectionMetadata_Size F_clover_collectionMetadata_Indexes F_index_Info_Field
(define-fun metaView ((sz (Array Ref (_ BitVec 64))) (ix (Array Ref Slice)) (ff (Array Ref Str)) (m Ref)) Cat (metaViewF sz ix ff m))
(assert (forall ((sz (Array Ref (_ BitVec 64))) (ix (Array Ref Slice)) (ff (Array Ref Str)) (m Ref))
  (! (= (catSize (metaViewF sz ix ff m)) (select sz m)) :pattern ((metaViewF sz ix ff m)))))
; an index on field g is in the catalog iff some element of Indexes has that field
(assert (forall ((sz (Array Ref (_ BitVec 64))) (ix (Array Ref Slice)) (ff (Array Ref Str)) (m Ref) (k (_ BitVec 64)))
  (! (=> (bvult k (sllen (select ix m))) (catHas (metaViewF sz ix ff m) (select ff (selemaddr (select ix m) k))))
     :pattern ((metaViewF sz ix ff m) (select ff (selemaddr (select ix m) k))))))
(declare-fun catWitness (Cat Str) (_ BitVec 64))
(assert (forall ((sz (Array Ref (_ BitVec 64))) (ix (Array Ref Slice)) (ff (Array Ref Str)) (m Ref) (g Str))
  (! (=> (catHas (metaViewF sz ix ff m) g)
         (and (bvult (catWitness (metaViewF sz ix ff m) g) (sllen (select ix m)))
              (= (select ff (selemaddr (select ix m) (catWitness (metaViewF sz ix ff m) g))) g)))
     :pattern ((catHas (metaViewF sz ix ff m) g)))))
