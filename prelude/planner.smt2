; requires: criteria ranges
; Planner theory (C02, C01): what the index planner may conclude from a criteria tree.
;   cwf(c)    the tree under c is well formed and normalised (children present, operands typed, literal
;             bounds canonical or field references); established by the criteria builders and by
;             normalizeCriteria, consumed by the visitors.
;   psat(c,d) the consequence of c that range planning may rely on for document d: whatever satisfies c, and
;             besides that a conjunction promises both sides while a disjunction or a negation promises
;             nothing. Writing it as "sat or ..." makes sat(c,d) => psat(c,d) one unfolding instead of an induction.
; Both are opaque (declared) with definitional axioms instantiated by "reveal" through the node's fields.
(define-fun isCriteria ((c Val)) Bool
  (and ((_ is vref) c) (or (= (rty c) TY_unary) (= (rty c) TY_binary) (= (rty c) TY_not)) (not (= (rval c) null))))
(define-fun isFieldRef ((x Val)) Bool (and ((_ is vref) x) (= (rty x) TY_field) (not (= (rval x) null))))
(define-fun isRangeOp ((op (_ BitVec 64))) Bool (or (= op OP_EQ) (= op OP_GT) (= op OP_GTEQ) (= op OP_LT) (= op OP_LTEQ)))
; an operand read from the document under test rather than a literal: Field(name) or a "$name" string
(define-fun isDocOperand ((x Val)) Bool (or (and ((_ is vref) x) (= (rty x) TY_field)) (and (isStrC x) (hasPrefix (sval x) (lit "$")))))
(declare-fun cwf (Val) Bool)
(declare-fun psat (Val Doc) Bool)
; statefun: cwf!def F_query_BinaryCriteria_OpType F_query_BinaryCriteria_C1 F_query_BinaryCriteria_C2 F_query_NotCriteria_C F_query_UnaryCriteria_OpType F_query_UnaryCriteria_Value
(define-fun cwf!def ((bop (Array Ref (_ BitVec 64))) (bc1 (Array Ref Val)) (bc2 (Array Ref Val)) (nc (Array Ref Val))
                     (uop (Array Ref (_ BitVec 64))) (uv (Array Ref Val)) (c Val)) Bool
  (and (isCriteria c)
       (ite (= (rty c) TY_binary) (and (cwf (select bc1 (rval c))) (cwf (select bc2 (rval c))))
       (ite (= (rty c) TY_not) (cwf (select nc (rval c)))
            (and (validUnary uop uv (rval c))
                 (=> (isRangeOp (select uop (rval c))) (or (isFieldRef (select uv (rval c))) (kx (select uv (rval c))))))))))
; statefun: psat!def F_query_BinaryCriteria_OpType F_query_BinaryCriteria_C1 F_query_BinaryCriteria_C2
(define-fun psat!def ((bop (Array Ref (_ BitVec 64))) (bc1 (Array Ref Val)) (bc2 (Array Ref Val)) (c Val) (d Doc)) Bool
  (or (sat c d)
      (ite (and ((_ is vref) c) (= (rty c) TY_binary))
           (ite (= (select bop (rval c)) #x0000000000000000) (and (psat (select bc1 (rval c)) d) (psat (select bc2 (rval c)) d)) true)
           (and ((_ is vref) c) (= (rty c) TY_not)))))
; cshape(c): the tree is structurally complete (children present, operands typed) - what the normalising visitor
; needs before literals are canonical; cwf(c) implies it by definition
(declare-fun cshape (Val) Bool)
; statefun: cshape!def F_query_BinaryCriteria_C1 F_query_BinaryCriteria_C2 F_query_NotCriteria_C F_query_UnaryCriteria_OpType F_query_UnaryCriteria_Value
(define-fun cshape!def ((bc1 (Array Ref Val)) (bc2 (Array Ref Val)) (nc (Array Ref Val)) (uop (Array Ref (_ BitVec 64))) (uv (Array Ref Val)) (c Val)) Bool
  (and (isCriteria c)
       (ite (= (rty c) TY_binary) (and (cshape (select bc1 (rval c))) (cshape (select bc2 (rval c))))
       (ite (= (rty c) TY_not) (cshape (select nc (rval c)))
            (validUnary uop uv (rval c))))))
(define-fun isFlatten ((v Val)) Bool (and ((_ is vref) v) (= (rty v) TY_vflatten)))
(define-fun isSelect ((v Val)) Bool (and ((_ is vref) v) (= (rty v) TY_vselect)))
(define-fun isRangeV ((v Val)) Bool (and ((_ is vref) v) (= (rty v) TY_vrange)))
(define-fun isNormV ((v Val)) Bool (and ((_ is vref) v) (= (rty v) TY_vnorm)))
; comp: F_clover_CriteriaNormalizeVisitor_err (Array Ref Val)
