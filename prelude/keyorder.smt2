; requires: docs cmporder ranges keys
; Order of index entry keys (C17, C02, C08). ASSUMED (A-KO): the byte order of entry keys of one index is the
; specification order of the indexed values, then the order of the document ids. This is C10's claim about the
; key encoding (type rank digit, then orderedcode, which is order preserving and self-delimiting, so no value
; key is a proper prefix of another); C10 proves clover's composition of the key, not orderedcode itself.
; valKey: what rangeIndex.getKey returns for a value (the entry key without the id)
(declare-fun valKey (Str Str Val) Str)
(assert (forall ((c Str) (f Str) (v Val)) (! (= (valKey c f v) (scat (typePrefix c f v) (keyOf v))) :pattern ((valKey c f v)))))
; document ids as stored: 36 ASCII characters (assumption A14), hence below the byte 0xff
(declare-fun idOK (Str) Bool)
(assert (forall ((k Str) (id Str)) (! (=> (idOK id) (< (strCmp (scat k id) (scat k (sbyte1 #xff))) 0)) :pattern ((scat k id) (scat k (sbyte1 #xff))))))
(assert (forall ((c Str) (f Str) (v Val) (w Val) (id Str)) (! (=> (and (kx v) (kx w))
    (and (=> (< (cmpS v w) 0) (< (strCmp (entryKey c f v id) (valKey c f w)) 0))
         (=> (= (cmpS v w) 0) (= (entryKey c f v id) (scat (valKey c f w) id)))
         (=> (> (cmpS v w) 0) (> (strCmp (entryKey c f v id) (valKey c f w)) 0))))
  :pattern ((strCmp (entryKey c f v id) (valKey c f w))) :pattern ((strCmp (valKey c f w) (entryKey c f v id))) :pattern ((hasPrefix (entryKey c f v id) (valKey c f w))))))
; a greater value stays greater whatever follows the smaller value's key (self-delimiting codes)
(assert (forall ((c Str) (f Str) (v Val) (w Val) (id Str) (s Str)) (! (=> (and (kx v) (kx w) (> (cmpS v w) 0))
    (> (strCmp (entryKey c f v id) (scat (valKey c f w) s)) 0))
  :pattern ((strCmp (entryKey c f v id) (scat (valKey c f w) s))) :pattern ((strCmp (scat (valKey c f w) s) (entryKey c f v id))))))
; every entry of the index lies below "<index key space>\xff" (the byte after the key space is 't')
(assert (forall ((c Str) (f Str) (v Val) (id Str)) (! (< (strCmp (entryKey c f v id) (scat (idxKS c f) (sbyte1 #xff))) 0) :pattern ((entryKey c f v id) (scat (idxKS c f) (sbyte1 #xff))))))
; value keys alone are ordered like the values
(assert (forall ((c Str) (f Str) (v Val) (w Val)) (! (=> (and (kx v) (kx w))
    (and (=> (< (cmpS v w) 0) (< (strCmp (valKey c f v) (valKey c f w)) 0))
         (=> (= (cmpS v w) 0) (= (valKey c f v) (valKey c f w)))
         (=> (> (cmpS v w) 0) (> (strCmp (valKey c f v) (valKey c f w)) 0))))
  :pattern ((strCmp (valKey c f v) (valKey c f w))))))
; an entry key is the value key followed by the id; stored ids have 36 bytes
(assert (forall ((c Str) (f Str) (v Val) (id Str)) (! (= (entryKey c f v id) (scat (valKey c f v) id)) :pattern ((entryKey c f v id)))))
(assert (forall ((id Str)) (! (=> (idOK id) (= (slen id) #x0000000000000024)) :pattern ((idOK id)))))
; decoders of stored entry keys (skolem functions of "every key in an index key space is an entry of that index")
(declare-fun valOfKey (Str) Val)
(declare-fun idOfKey (Str) Str)
; the entries whose key starts with the value key of w are exactly the entries of values equal to w
(assert (forall ((c Str) (f Str) (v Val) (w Val) (id Str)) (! (=> (and (kx v) (kx w))
    (= (hasPrefix (entryKey c f v id) (valKey c f w)) (= (cmpS v w) 0)))
  :pattern ((hasPrefix (entryKey c f v id) (valKey c f w))))))
