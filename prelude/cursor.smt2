; requires: strings
; Ordered-key cursor semantics (C15, C17): what "seek", "next" and "valid" mean over a set of byte-string
; keys ordered by bytes.Compare (strCmp). Written from the property text: a forward seek lands on the first
; key at or after the target, a reverse seek on the last key at or before it, iteration visits each key
; once in order.
(define-fun keyLe ((a Str) (b Str)) Bool (<= (strCmp a b) 0))
(define-fun keyLt ((a Str) (b Str)) Bool (< (strCmp a b) 0))
(define-fun firstGE ((S (Array Str Bool)) (k Str) (r Str)) Bool
  (and (select S r) (keyLe k r) (forall ((x Str)) (! (=> (and (select S x) (keyLe k x)) (keyLe r x)) :pattern ((select S x))))))
(define-fun noneGE ((S (Array Str Bool)) (k Str)) Bool
  (forall ((x Str)) (! (=> (select S x) (keyLt x k)) :pattern ((select S x)))))
(define-fun lastLE ((S (Array Str Bool)) (k Str) (r Str)) Bool
  (and (select S r) (keyLe r k) (forall ((x Str)) (! (=> (and (select S x) (keyLe x k)) (keyLe x r)) :pattern ((select S x))))))
(define-fun noneLE ((S (Array Str Bool)) (k Str)) Bool
  (forall ((x Str)) (! (=> (select S x) (keyLt k x)) :pattern ((select S x)))))
(define-fun succOf ((S (Array Str Bool)) (p Str) (r Str)) Bool
  (and (select S r) (keyLt p r) (forall ((x Str)) (! (=> (and (select S x) (keyLt p x)) (keyLe r x)) :pattern ((select S x))))))
(define-fun noneGT ((S (Array Str Bool)) (p Str)) Bool
  (forall ((x Str)) (! (=> (select S x) (keyLe x p)) :pattern ((select S x)))))
(define-fun predOf ((S (Array Str Bool)) (p Str) (r Str)) Bool
  (and (select S r) (keyLt r p) (forall ((x Str)) (! (=> (and (select S x) (keyLt x p)) (keyLe x r)) :pattern ((select S x))))))
(define-fun noneLT ((S (Array Str Bool)) (p Str)) Bool
  (forall ((x Str)) (! (=> (select S x) (keyLe p x)) :pattern ((select S x)))))
(define-fun maxOf ((S (Array Str Bool)) (r Str)) Bool
  (and (select S r) (forall ((x Str)) (! (=> (select S x) (keyLe x r)) :pattern ((select S x))))))
(define-fun emptySet ((S (Array Str Bool))) Bool (forall ((x Str)) (! (not (select S x)) :pattern ((select S x)))))
; the meaning of a seek in either direction: where the cursor stands afterwards (valid, pos)
(define-fun seekLands ((S (Array Str Bool)) (fwd Bool) (k Str) (valid Bool) (pos Str)) Bool
  (ite fwd (ite (noneGE S k) (not valid) (and valid (firstGE S k pos)))
           (ite (noneLE S k) (not valid) (and valid (lastLE S k pos)))))
; the meaning of a step from position p
(define-fun stepLands ((S (Array Str Bool)) (fwd Bool) (p Str) (valid Bool) (pos Str)) Bool
  (ite fwd (ite (noneGT S p) (not valid) (and valid (succOf S p pos)))
           (ite (noneLT S p) (not valid) (and valid (predOf S p pos)))))
; Library cursors (go.etcd.io/bbolt.Cursor, badger.Iterator), keyed by the library object: the key set and
; values the cursor iterates over (fixed while the cursor lives: clover never writes under an open cursor,
; obligation no-write-while-cursor-open), whether it stands on a key, and which; badger iterators also carry
; their direction.
; ghost: lcKeys (Array Ref (Array Str Bool))
; ghost: lcVals (Array Ref (Array Str Bytes))
; ghost: lcAt (Array Ref Bool)
; ghost: lcPos (Array Ref Str)
; ghost: lcRev (Array Ref Bool)
; Library key-value views (a bbolt Bucket, a badger Txn), keyed by the library object: which keys it holds and
; their values. bktOf(tx): the root bucket of a bbolt transaction (created by Open; assumed present).
; ghost: lbHas (Array Ref (Array Str Bool))
; ghost: lbVal (Array Ref (Array Str Bytes))
(declare-fun bktOf (Ref) Ref)
; badger items: the key and value an Item stands for
; ghost: liKey (Array Ref Str)
; ghost: liVal (Array Ref Bytes)
