; requires: values keys
; Abstract view of a document (C01, C06, C11): the value of every dotted path and the _id, as a
; function of the document's memory; and the index entry a document owns in an index.
(declare-sort Doc 0)
; comp: F_document_Document_fields (Array Ref Ref)
; comp: MH_mapLstringJinterfaceBB (Array Ref (Array Str Bool))
; comp: MV_mapLstringJinterfaceBB (Array Ref (Array Str Val))
; (elements of slices nested in a document are not part of the view's footprint: no clover function
; writes them in place once a document has been decoded or normalised)
(declare-fun docvF ((Array Ref Ref) (Array Ref (Array Str Bool)) (Array Ref (Array Str Val)) Ref) Doc)
; statefun: docv F_document_Document_fields MH_mapLstringJinterfaceBB MV_mapLstringJinterfaceBB
(define-fun docv ((f (Array Ref Ref)) (h (Array Ref (Array Str Bool))) (v (Array Ref (Array Str Val))) (d Ref)) Doc (docvF f h v d))
(declare-fun dget (Doc Str) Val)
(declare-fun dhas (Doc Str) Bool)
(declare-fun docIdOf (Doc) Str)
; stored form of a document (document.Encode / Decode; msgpack round trip assumed, A7)
(declare-fun encDoc (Doc) Str)
(declare-fun decDoc (Str) Doc)
(assert (forall ((d Doc)) (! (= (decDoc (encDoc d)) d) :pattern ((encDoc d)))))
; index entry keys: "<idxPrefix>;t:<rank>;v:" ++ keyOf(value) ++ id  (mirrors rangeIndex.getKey / encodeValueAndId)
(declare-fun keyOf (Val) Str)
(define-fun typePrefix ((c Str) (f Str) (v Val)) Str
  (scat (scat (scat (idxPrefix c f) (lit ";t:")) (itoa ((_ int2bv 64) (rankOf v)))) (lit ";v:")))
; entryKey is opaque (usable as a pattern); reveal (entryKey c f v id) gives the layout
(declare-fun entryKey (Str Str Val Str) Str)
(define-fun entryKey!def ((c Str) (f Str) (v Val) (id Str)) Str (scat (scat (typePrefix c f v) (keyOf v)) id))
; every entry key lies in the key space of its own index: instance of the layout, proved over entryKey!def as
; lemma entry-under-index-keyspace (/verif/lemmas/keyspace.contracts)
(assert (forall ((c Str) (f Str) (v Val) (id Str)) (! (hasPrefix (entryKey c f v id) (idxKS c f)) :pattern ((entryKey c f v id)))))
(assert (forall ((c Str) (f Str)) (! (hasPrefix (idxKS c f) (idxPrefix c f)) :pattern ((idxKS c f)))))
; comp: F_index_indexBase_collection (Array Ref Str)
; comp: F_index_indexBase_field (Array Ref Str)
; statefun: entryOf F_index_indexBase_collection F_index_indexBase_field
(define-fun entryOf ((cc (Array Ref Str)) (ff (Array Ref Str)) (ix Ref) (d Doc)) Str
  (entryKey (select cc (fld ix 0)) (select ff (fld ix 0)) (dget d (select ff (fld ix 0))) (docIdOf d)))
; Key-space separation (consequence of the layout for collection names free of ';', assumption A14): a document
; key is never an index entry key, and the catalog key of a collection is neither. Axioms: not proved here
; (they need "c contains no ';'" reasoning in a string theory).
(assert (forall ((c Str) (id Str) (c2 Str) (f Str) (v Val) (id2 Str)) (! (not (= (docKey c id) (entryKey c2 f v id2))) :pattern ((docKey c id) (entryKey c2 f v id2)))))
(assert (forall ((c Str) (c2 Str) (f Str) (v Val) (id2 Str)) (! (not (= (collKey c) (entryKey c2 f v id2))) :pattern ((collKey c) (entryKey c2 f v id2)))))
(assert (forall ((c Str) (c2 Str) (id Str)) (! (not (= (collKey c) (docKey c2 id))) :pattern ((collKey c) (docKey c2 id)))))
