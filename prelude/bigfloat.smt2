; ghost: bigF (Array Ref (_ FloatingPoint 11 53))
; the value held by a *big.Float created by big.NewFloat (exact for float64 arguments)
