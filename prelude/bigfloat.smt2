; the value held by a *big.Float created by big.NewFloat (exact for float64 arguments); such objects
; are never mutated by clover, so the value is a function of the reference
(declare-fun bigOf (Ref) (_ FloatingPoint 11 53))
