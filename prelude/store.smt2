; requires: strings
; Ghost state of the store.Store / Tx / Cursor interface contract (DESIGN.md section 5.1).
; Transactions and cursors are identified by their interface value.
; ghost: txState (Array Val Int)
; ghost: txUpdate (Array Val Bool)
; ghost: txCursors (Array Val Int)
; ghost: kvHas (Array Val (Array Str Bool))
; ghost: kvVal (Array Val (Array Str Bytes))
; ghost: curTx (Array Val Val)
; ghost: curFwd (Array Val Bool)
; ghost: curOpen (Array Val Bool)
; ghost: curValid (Array Val Bool)
; ghost: curPos (Array Val Str)
; ghost: curRem (Array Val Int)
; ghost: begins Int
; ghost: commits Int
; ghost: openTx Int
; ghost: openCur Int
; ghost: nWrites Int
; ghost: storeErr Bool
; ghost: wkeys (Array Str Bool)
; ghost: protoOK Bool
(define-fun TX_NONE () Int 0)
(define-fun TX_OPEN () Int 1)
(define-fun TX_COMMITTED () Int 2)
(define-fun TX_DISCARDED () Int 3)
; ghost: opTx Val
