; requires: strings cursor keys
; Ghost state of the store.Store / Tx / Cursor interface contract (DESIGN.md section 5.1).
; Transactions and cursors are identified by their interface value.
; ghost: txState (Array Val Int)
; ghost: txUpdate (Array Val Bool)
; ghost: txCursors (Array Val Int)
; ghost: kvHas (Array Val (Array Str Bool))
; ghost: kvVal (Array Val (Array Str Bytes))
; ghost: curTx (Array Val Val)
; ghost: curFwd (Array Val Bool)
; ghost: curOpen (Array Val Bool)
; ghost: curValid (Array Val Bool)
; ghost: curPos (Array Val Str)
; ghost: curRem (Array Val Int)
; ghost: begins Int
; ghost: commits Int
; ghost: openTx Int
; ghost: openCur Int
; ghost: nWrites Int
; ghost: storeErr Bool
; ghost: wkeys (Array Str Bool)
; ghost: protoOK Bool
(define-fun TX_NONE () Int 0)
(define-fun TX_OPEN () Int 1)
(define-fun TX_COMMITTED () Int 2)
(define-fun TX_DISCARDED () Int 3)
; ghost: opTx Val
(declare-datatype Proto ((mkproto (p_txState (Array Val Int)) (p_txUpdate (Array Val Bool)) (p_txCursors (Array Val Int))
  (p_openTx Int) (p_openCur Int) (p_commits Int) (p_begins Int) (p_opTx Val) (p_curOpen (Array Val Bool)))))
; statefun: protoSnap txState txUpdate txCursors openTx openCur commits begins opTx curOpen
(define-fun protoSnap ((a (Array Val Int)) (b (Array Val Bool)) (c (Array Val Int)) (d Int) (e Int) (f Int) (g Int) (h Val) (i (Array Val Bool))) Proto
  (mkproto a b c d e f g h i))
; statefun: txReady txState opTx
(define-fun txReady ((s (Array Val Int)) (o Val) (tx Val)) Bool (and (not (= tx vnil)) (= (select s tx) TX_OPEN) (= o tx)))
; statefun: txWritable txState opTx txUpdate txCursors
(define-fun txWritable ((s (Array Val Int)) (o Val) (u (Array Val Bool)) (c (Array Val Int)) (tx Val)) Bool
  (and (not (= tx vnil)) (= (select s tx) TX_OPEN) (= o tx) (select u tx) (= (select c tx) 0)))
; statefun: newStoreErr storeErr
(define-fun newStoreErr ((now Bool) (before Bool)) Bool (and now (not before)))
; ghost: txStopped (Array Val Bool)
; struct: query.Query
; ghost: iterQ S_query_Query
; ghost: ndCalls (Array Val Int)
; committed view of the store: what a transaction begun now would read (snapshot isolation, single writer)
; ghost: cmHas (Array Str Bool)
; ghost: cmVal (Array Str Bytes)
; how many times each key was handed to an item consumer by a prefix scan (C17, C01: exactly once each)
; ghost: seen (Array Str Int)
; how many times a scan was cut short by a consumer asking to stop (exactness of a scan is stated for uncut scans)
; ghost: cuts Int
; kcount[tx][c]: how many document keys of collection c the transaction sees (C06, C09: the stored Size follows it).
; A 64-bit counter like the stored Size (Go int). Maintained by Tx.Set / Tx.Delete: +1 for a document key that was absent, -1 for one that was present.
; ghost: kcount (Array Val (Array Str (_ BitVec 64)))
; ghost: cmCount (Array Str (_ BitVec 64))
