; requires: strings
; Key layout of clover (db.go, index/range_index.go), mirrored from the constructors.
(define-fun collKey ((c Str)) Str (scat (lit "coll:") c))
(define-fun collPrefix ((c Str)) Str (scat (scat (lit "c:") c) (lit ";")))
(define-fun docPrefix ((c Str)) Str (scat (collPrefix c) (lit "d:")))
(define-fun docKey ((c Str) (id Str)) Str (scat (docPrefix c) id))
; key space of a collection: its catalog entry and everything under "c:<name>;"
(define-fun inKS ((c Str) (k Str)) Bool (or (= k (collKey c)) (hasPrefix k (collPrefix c))))
; index entries of field f of collection c live under "c:<c>;i:<f>" (mirrors rangeIndex.getKeyPrefix)
(define-fun idxPrefix ((c Str) (f Str)) Str (scat (scat (scat (lit "c:") c) (lit ";i:")) f))
; the key space of ONE index: its prefix with the ';' that ends the field name (C14: indexes are independent;
; field names hold no ';', so "c:<c>;i:x;" is not a prefix of any key of index "xy")
(define-fun idxKS ((c Str) (f Str)) Str (scat (idxPrefix c f) (lit ";")))
; which keys are document keys, and of which collection (characterised in docs.smt2)
(declare-fun isDocKey (Str) Bool)
(declare-fun docCollOf (Str) Str)
(declare-fun noSemi (Str) Bool)
