; requires: keys docs
; Which store keys are document keys, and of which collection (C06, C09: the document-key counter kcount).
; Facts of the key layout "c:<coll>;d:<id>" for collection names free of ';' (the domain of the properties; without
; that side condition "c:a;d:;d:b" is a document key of both "a" and "a;d:" and the axiom would be inconsistent).
; Kept in a module of their own: only the functions that reason about the counter load them.
(assert (forall ((c Str) (id Str)) (! (=> (noSemi c) (and (isDocKey (docKey c id)) (= (docCollOf (docKey c id)) c))) :pattern ((docKey c id)))))
(assert (forall ((c Str)) (! (not (isDocKey (collKey c))) :pattern ((collKey c)))))
; nothing in the key space of an index (of a ';'-free collection) is a document key; in particular no index entry is
(assert (forall ((c Str) (f Str) (k Str)) (! (=> (and (noSemi c) (hasPrefix k (idxKS c f))) (not (isDocKey k))) :pattern ((hasPrefix k (idxKS c f)) (isDocKey k)))))
(assert (forall ((c Str) (f Str) (v Val) (id Str)) (! (not (isDocKey (entryKey c f v id))) :pattern ((isDocKey (entryKey c f v id))))))
