; requires: values
; Time wrapping for storage (internal/time.go, C11): a time.Time is stored as *LocalizedTime.
; (the Time field of LocalizedTime has its address taken by GobDecode, so it lives in cell memory at (fld p 0))
; comp: C_time.Time (Array Ref Time)
(define-fun isLTime ((v Val)) Bool (and ((_ is vref) v) (= (rty v) TY_ltime)))
(define-fun isMapV ((v Val)) Bool (and ((_ is vref) v) (= (rty v) TY_map)))
(define-fun isSliceV ((v Val)) Bool (and ((_ is vslice) v) (= (lty v) TY_slice)))
; one level of wrapping: times become non-nil *LocalizedTime holding the same time, other scalars are unchanged
; statefun: wrapLeaf C_time.Time
(define-fun wrapLeaf ((lt (Array Ref Time)) (v Val) (r Val)) Bool
  (ite ((_ is vtime) v) (and (isLTime r) (not (= (rval r) null)) (= (select lt (fld (rval r) 0)) (tval v)))
  (ite (isMapV v) (and (isMapV r) (not (= (rval r) null)))
  (ite (isSliceV v) (and (isSliceV r) (not (= (sbase (lval r)) null)) (= (sllen (lval r)) (sllen (lval v))))
       (= r v)))))
; one level of unwrapping: non-nil *LocalizedTime become the time they hold, everything else keeps its identity
; statefun: unwrapLeaf C_time.Time
(define-fun unwrapLeaf ((lt (Array Ref Time)) (v Val) (r Val)) Bool
  (ite (and (isLTime v) (not (= (rval v) null))) (and ((_ is vtime) r) (= (tval r) (select lt (fld (rval v) 0))))
       (= r v)))
