; requires: docs cmporder
; Criteria semantics (C16, C01). sat(c, d): whether document d satisfies criteria node c. Criteria nodes are
; immutable once built (frame obligations of every function under contract), so sat is a function of the
; node's identity; "reveal (sat c d)" unfolds it through the node's fields in the current heap.
; comp: F_query_BinaryCriteria_OpType (Array Ref (_ BitVec 64))
; comp: F_query_BinaryCriteria_C1 (Array Ref Val)
; comp: F_query_BinaryCriteria_C2 (Array Ref Val)
; comp: F_query_NotCriteria_C (Array Ref Val)
; comp: F_query_UnaryCriteria_OpType (Array Ref (_ BitVec 64))
; comp: F_query_UnaryCriteria_Field (Array Ref Str)
; comp: F_query_UnaryCriteria_Value (Array Ref Val)
; comp: F_query_field_name (Array Ref Str)
(define-fun OP_EXISTS () (_ BitVec 64) #x0000000000000000)
(define-fun OP_EQ () (_ BitVec 64) #x0000000000000001)
(define-fun OP_NEQ () (_ BitVec 64) #x0000000000000002)
(define-fun OP_GT () (_ BitVec 64) #x0000000000000003)
(define-fun OP_GTEQ () (_ BitVec 64) #x0000000000000004)
(define-fun OP_LT () (_ BitVec 64) #x0000000000000005)
(define-fun OP_LTEQ () (_ BitVec 64) #x0000000000000006)
(define-fun OP_LIKE () (_ BitVec 64) #x0000000000000007)
(define-fun OP_IN () (_ BitVec 64) #x0000000000000008)
(define-fun OP_CONTAINS () (_ BitVec 64) #x0000000000000009)
(define-fun OP_FUNCTION () (_ BitVec 64) #x000000000000000a)
(declare-fun strTrimLeft (Str Str) Str)
; internal.Normalize: canonical values are fixed points; anything normalisable becomes canonical (assumption on the
; reflection-based normaliser, C18); normV is the numeric-value-preserving canonical form
(declare-fun normV (Val) Val)
(declare-fun normalizable (Val) Bool)
(assert (forall ((x Val)) (! (=> (canon x) (and (normalizable x) (= (normV x) x))) :pattern ((normV x)))))
(assert (forall ((x Val)) (! (=> (normalizable x) (canon (normV x))) :pattern ((normV x)))))
; the operand of a comparison: Field(name) and "$name" strings are read from the document under test
; statefun: operandOf F_query_field_name
(define-fun operandOf ((fname (Array Ref Str)) (x Val) (d Doc)) Val
  (ite (and ((_ is vref) x) (= (rty x) TY_field)) (dget d (select fname (rval x)))
  (ite (and (isStrC x) (hasPrefix (sval x) (lit "$"))) (dget d (strTrimLeft (sval x) (lit "$"))) x)))
(declare-fun sat (Val Doc) Bool)
; leaf operators whose semantics involve lists, regular expressions or user predicates: characterised by the
; contracts of in / contains / like (quantified postconditions), named here so that Satisfy can refer to them
; comp: C_interfaceBB (Array Ref Val)
(declare-fun regexMatch (Str Str) Bool)
(declare-fun funcS (Func Doc) Bool)
; ordering operators: the field (absent = nil) against the normalised operand
(define-fun compareF ((op (_ BitVec 64)) (fv Val) (x Val)) Bool
  (and (normalizable x)
       (ite (= op OP_GT) (> (cmpS fv (normV x)) 0) (ite (= op OP_GTEQ) (>= (cmpS fv (normV x)) 0)
       (ite (= op OP_LT) (< (cmpS fv (normV x)) 0) (<= (cmpS fv (normV x)) 0))))))
; Contains: the field is a non-nil array and every listed element compares equal to some array element
(define-fun containsF ((cib (Array Ref Val)) (fname (Array Ref Str)) (list Val) (fv Val) (d Doc)) Bool
  (and (isSliceC fv) (not (= (sbase (lval fv)) null))
       (forall ((i (_ BitVec 64))) (=> (bvult i (sllen (lval list)))
          (and (normalizable (operandOf fname (select cib (selemaddr (lval list) i)) d))
          (exists ((j (_ BitVec 64))) (and (bvult j (sllen (lval fv)))
             (= (cmpS (normV (operandOf fname (select cib (selemaddr (lval list) i)) d)) (select cib (selemaddr (lval fv) j))) 0))))))))
; In: the field (absent = nil) compares equal to one of the listed values
(define-fun inF ((cib (Array Ref Val)) (fname (Array Ref Str)) (list Val) (fv Val) (d Doc)) Bool
  (exists ((i (_ BitVec 64))) (and (bvult i (sllen (lval list))) (normalizable (operandOf fname (select cib (selemaddr (lval list) i)) d))
       (= (cmpS (normV (operandOf fname (select cib (selemaddr (lval list) i)) d)) fv) 0))))
(define-fun likeF ((pattern Val) (fv Val)) Bool (and (isStrC fv) (regexMatch (sval pattern) (sval fv))))
; statefun: satUnary F_query_UnaryCriteria_OpType F_query_UnaryCriteria_Field F_query_UnaryCriteria_Value F_query_field_name C_interfaceBB
(define-fun satUnary ((uop (Array Ref (_ BitVec 64))) (uf (Array Ref Str)) (uv (Array Ref Val)) (fname (Array Ref Str)) (cib (Array Ref Val)) (c Val) (d Doc)) Bool
  (let ((op (select uop (rval c))) (f (select uf (rval c))) (v (select uv (rval c))))
  (ite (= op OP_EXISTS) (dhas d f)
  (ite (= op OP_EQ) (and (normalizable (operandOf fname v d)) (dhas d f) (= (cmpS (dget d f) (normV (operandOf fname v d))) 0))
  (ite (= op OP_LIKE) (likeF v (dget d f))
  (ite (= op OP_IN) (inF cib fname v (dget d f) d)
  (ite (or (= op OP_GT) (= op OP_GTEQ) (= op OP_LT) (= op OP_LTEQ)) (compareF op (dget d f) (operandOf fname v d))
  (ite (= op OP_CONTAINS) (containsF cib fname v (dget d f) d)
  (ite (= op OP_FUNCTION) (funcS (nval v) d) false)))))))))
; statefun: sat!def F_query_BinaryCriteria_OpType F_query_BinaryCriteria_C1 F_query_BinaryCriteria_C2 F_query_NotCriteria_C F_query_UnaryCriteria_OpType F_query_UnaryCriteria_Field F_query_UnaryCriteria_Value F_query_field_name C_interfaceBB
(define-fun sat!def ((bop (Array Ref (_ BitVec 64))) (bc1 (Array Ref Val)) (bc2 (Array Ref Val)) (nc (Array Ref Val))
                     (uop (Array Ref (_ BitVec 64))) (uf (Array Ref Str)) (uv (Array Ref Val)) (fname (Array Ref Str)) (cib (Array Ref Val)) (c Val) (d Doc)) Bool
  (ite (and ((_ is vref) c) (= (rty c) TY_binary))
       (ite (= (select bop (rval c)) #x0000000000000000) (and (sat (select bc1 (rval c)) d) (sat (select bc2 (rval c)) d))
                                                         (or (sat (select bc1 (rval c)) d) (sat (select bc2 (rval c)) d)))
  (ite (and ((_ is vref) c) (= (rty c) TY_not)) (not (sat (select nc (rval c)) d))
       (satUnary uop uf uv fname cib c d))))
; statefun: containsS C_interfaceBB F_query_field_name
(define-fun containsS ((cib (Array Ref Val)) (fname (Array Ref Str)) (list Val) (fv Val) (d Doc)) Bool (containsF cib fname list fv d))
; statefun: inS C_interfaceBB F_query_field_name
(define-fun inS ((cib (Array Ref Val)) (fname (Array Ref Str)) (list Val) (fv Val) (d Doc)) Bool (inF cib fname list fv d))
; operand typing (what the builders produce): In/Contains carry a list, Like a string, MatchFunc a function
; statefun: validUnary F_query_UnaryCriteria_OpType F_query_UnaryCriteria_Value
(define-fun validUnary ((uop (Array Ref (_ BitVec 64))) (uv (Array Ref Val)) (c Ref)) Bool
  (let ((op (select uop c)) (v (select uv c)))
  (and (=> (or (= op OP_IN) (= op OP_CONTAINS)) (and ((_ is vslice) v) (= (lty v) TY_slice)))
       (=> (= op OP_LIKE) (isStrC v))
       (=> (= op OP_FUNCTION) (and ((_ is vfunc) v) (= (nty v) TY_matchfunc) (not (= (nval v) fnil)))))))
