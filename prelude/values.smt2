; requires: strings
; clover value domain: canonical tags, the type ranking of the property text, numeric comparison
(define-fun isI64 ((v Val)) Bool (and ((_ is vint) v) (= (vty v) TY_int64)))
(define-fun isU64 ((v Val)) Bool (and ((_ is vint) v) (= (vty v) TY_uint64)))
(define-fun isF64 ((v Val)) Bool (and ((_ is vflt) v) (= (fty v) TY_float64)))
(define-fun isNumC ((v Val)) Bool (or (isI64 v) (isU64 v) (isF64 v)))
(define-fun isStrC ((v Val)) Bool (and ((_ is vstr) v) (= (sty v) TY_string)))
(define-fun isBoolC ((v Val)) Bool (and ((_ is vbool) v) (= (bty v) TY_bool)))
(define-fun isTimeC ((v Val)) Bool ((_ is vtime) v))
(define-fun isSliceC ((v Val)) Bool (and ((_ is vslice) v) (= (lty v) TY_slice)))
(define-fun isMapC ((v Val)) Bool (and ((_ is vref) v) (= (rty v) TY_map) (not (= (rval v) null))))
(define-fun noNaN ((v Val)) Bool (=> (isF64 v) (not (fp.isNaN (fval v)))))
; canonical (shallow): one of the nine supported dynamic types, no NaN
(define-fun canon ((v Val)) Bool
  (and (or ((_ is vnil) v) (isNumC v) (isStrC v) (isBoolC v) (isTimeC v) (isSliceC v) (isMapC v)) (noNaN v)))
; the ranking nil < number < string < object < array < bool < time, written out from the property text
(define-fun rankOf ((v Val)) Int
  (ite ((_ is vnil) v) 0 (ite (isNumC v) 1 (ite (isStrC v) 2 (ite (isMapC v) 3 (ite (isSliceC v) 4 (ite (isBoolC v) 5 (ite (isTimeC v) 6 (- 1)))))))))
; Go-level "is a number" (any numeric kind), as util.IsNumber decides it
(define-fun isGoNumTy ((t Int)) Bool (and (<= 1 t) (<= t 13) (not (= t 11))))
(define-fun isGoNum ((v Val)) Bool (or (and ((_ is vint) v) (isGoNumTy (vty v))) (and ((_ is vflt) v) (isGoNumTy (fty v)))))
; numeric value order. Integers: exact on 65-bit extensions. With a float on either side: in float64 on the
; conversions, which are exact under mixOK (|integer| <= 2^53), the domain restriction of C10.
(define-fun ext65 ((v Val)) (_ BitVec 65) (ite (isI64 v) ((_ sign_extend 1) (vbits v)) ((_ zero_extend 1) (vbits v))))
(define-fun asF64 ((v Val)) (_ FloatingPoint 11 53)
  (ite (isF64 v) (fval v) (ite (isI64 v) ((_ to_fp 11 53) RNE (vbits v)) ((_ to_fp_unsigned 11 53) RNE (vbits v)))))
(define-fun fpSign ((x (_ FloatingPoint 11 53)) (y (_ FloatingPoint 11 53))) Int (ite (fp.lt x y) (- 1) (ite (fp.gt x y) 1 0)))
; numCmp is opaque to clients; a contract that needs the definition says: reveal (numCmp a b)
(declare-fun numCmp (Val Val) Int)
(define-fun numCmp!def ((a Val) (b Val)) Int
  (ite (or (isF64 a) (isF64 b)) (fpSign (asF64 a) (asF64 b))
       (ite (bvslt (ext65 a) (ext65 b)) (- 1) (ite (= (ext65 a) (ext65 b)) 0 1))))
(define-fun within53 ((v Val)) Bool
  (ite (isI64 v) (and (bvsle #xffe0000000000000 (vbits v)) (bvsle (vbits v) #x0020000000000000))
       (ite (isU64 v) (bvule (vbits v) #x0020000000000000) true)))
(define-fun mixOK ((a Val) (b Val)) Bool (and (=> (isF64 a) (within53 b)) (=> (isF64 b) (within53 a))))
(define-fun boolInt ((b Bool)) Int (ite b 1 0))
(define-fun sign3 ((x Int)) Int (ite (< x 0) (- 1) (ite (= x 0) 0 1)))
(define-fun timeCmp ((a Time) (b Time)) Int (ite (bvslt (unixNano a) (unixNano b)) (- 1) (ite (= (unixNano a) (unixNano b)) 0 1)))
; container comparison (lexicographic, then length) in the heap of the call: characterised by compareSlices/compareObjects
(declare-fun cmpC (Val Val) Int)
; the specification order of C10 / C01 / C08
; cmpS is opaque to clients (so that it can serve as a pattern); reveal (cmpS a b) gives the definition
(declare-fun cmpS (Val Val) Int)
(define-fun cmpS!def ((a Val) (b Val)) Int
  (ite (not (= (rankOf a) (rankOf b))) (ite (< (rankOf a) (rankOf b)) (- 1) 1)
  (ite (= (rankOf a) 1) (numCmp a b)
  (ite (= (rankOf a) 2) (strCmp (sval a) (sval b))
  (ite (= (rankOf a) 5) (sign3 (- (boolInt (bval a)) (boolInt (bval b))))
  (ite (= (rankOf a) 6) (timeCmp (tval a) (tval b))
  (ite (or (= (rankOf a) 3) (= (rankOf a) 4)) (cmpC a b) 0)))))))
