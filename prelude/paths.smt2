; requires: values docs
; Dotted field paths (document/document.go lookupField, C18 "Set, Get and Has agree on dotted paths"; Has/Get are what
; every criteria evaluation and index maintenance reads). A name is split at '.' into segments; seg(name,i) is
; segment i, nseg(name) >= 1 their number (strings.Split, assumed). hasFrom / getFrom answer the lookup of the
; segments i.. starting in map m, in the heap of the call (opaque; "reveal" unfolds one step).
(declare-fun nseg (Str) (_ BitVec 64))
(declare-fun seg (Str (_ BitVec 64)) Str)
(assert (forall ((n Str)) (! (and (bvsle #x0000000000000001 (nseg n)) (bvslt (nseg n) LENMAX)) :pattern ((nseg n)))))
; comp: MH_mapLstringJinterfaceBB (Array Ref (Array Str Bool))
; comp: MV_mapLstringJinterfaceBB (Array Ref (Array Str Val))
(define-fun isMapVal ((v Val)) Bool (and ((_ is vref) v) (= (rty v) TY_map)))
(declare-fun hasFrom ((Array Ref (Array Str Bool)) (Array Ref (Array Str Val)) Ref Str (_ BitVec 64)) Bool)
(declare-fun getFrom ((Array Ref (Array Str Bool)) (Array Ref (Array Str Val)) Ref Str (_ BitVec 64)) Val)
; statefun: hasFrom MH_mapLstringJinterfaceBB MV_mapLstringJinterfaceBB
; statefun: getFrom MH_mapLstringJinterfaceBB MV_mapLstringJinterfaceBB
; statefun: hasFrom!def MH_mapLstringJinterfaceBB MV_mapLstringJinterfaceBB
; statefun: getFrom!def MH_mapLstringJinterfaceBB MV_mapLstringJinterfaceBB
(define-fun hasFrom!def ((mh (Array Ref (Array Str Bool))) (mv (Array Ref (Array Str Val))) (m Ref) (n Str) (i (_ BitVec 64))) Bool
  (and (not (= m null)) (select (select mh m) (seg n i))
       (or (= i (bvsub (nseg n) #x0000000000000001))
           (and (isMapVal (select (select mv m) (seg n i)))
                (hasFrom mh mv (rval (select (select mv m) (seg n i))) n (bvadd i #x0000000000000001))))))
(define-fun getFrom!def ((mh (Array Ref (Array Str Bool))) (mv (Array Ref (Array Str Val))) (m Ref) (n Str) (i (_ BitVec 64))) Val
  (ite (or (= m null) (not (select (select mh m) (seg n i)))) vnil
  (ite (= i (bvsub (nseg n) #x0000000000000001)) (select (select mv m) (seg n i))
  (ite (isMapVal (select (select mv m) (seg n i)))
       (getFrom mh mv (rval (select (select mv m) (seg n i))) n (bvadd i #x0000000000000001))
       vnil))))
; instances of the definitions at the nil map: nothing is found there
(assert (forall ((mh (Array Ref (Array Str Bool))) (mv (Array Ref (Array Str Val))) (n Str) (i (_ BitVec 64))) (! (not (hasFrom mh mv null n i)) :pattern ((hasFrom mh mv null n i)))))
(assert (forall ((mh (Array Ref (Array Str Bool))) (mv (Array Ref (Array Str Val))) (n Str) (i (_ BitVec 64))) (! (= (getFrom mh mv null n i) vnil) :pattern ((getFrom mh mv null n i)))))
