package clover

type pair struct{ a, b int }

var counter int

func deferred(b *box) {
	defer setSeven(b)
	b.v = 1
}

func structCopy(p pair) pair {
	q := p
	q.a = 3
	return p
}

func subslice(s []int) int {
	t := s[1:]
	t[0] = 9
	return s[1]
}

func mapAlias(m, n map[string]int) int {
	m["a"] = 1
	n["a"] = 2
	return m["a"]
}

func trunc(x int) int32 {
	return int32(x)
}

func sdiv(a int) int {
	return a / 2
}

func smod(a int) int {
	return a % 2
}

func shl(a int) int {
	return a << 1
}

func skipOdd(s []int) int {
	c := 0
	for _, x := range s {
		if x%2 != 0 {
			continue
		}
		c++
	}
	return c
}

func fact(n int) int {
	if n <= 0 {
		return 1
	}
	return n * fact(n-1)
}

func bump() int {
	counter++
	return counter
}

func readGlobalAcross(b *box) int {
	c := counter
	opaque(b)
	return counter - c
}

func typeSw(v interface{}) int {
	switch x := v.(type) {
	case int:
		return x
	case string:
		return len(x)
	}
	return -1
}

func nilIface(v interface{}) bool {
	return v == nil
}

func swap(p *pair) {
	p.a, p.b = p.b, p.a
}

func ptrLocal() int {
	x := 1
	p := &x
	*p = 2
	return x
}

func growWhileRanging(s []int) int {
	n := 0
	for range s {
		s = append(s, 0)
		n++
	}
	return n
}

func namedResult(b *box) (r int) {
	defer func() { r = r + 1 }()
	return b.v
}

func strLen(a string) int {
	return len(a + "x")
}

func fcmp(x float64) bool {
	return x == x
}

func u8(x uint8) uint8 {
	return x + 1
}

func setSeven(b *box) {
	b.v = 7
}

func opaqueBump() {
	for i := 0; i < 3; i++ {
		counter++
	}
}

func readGlobalAcrossWriter() int {
	c := counter
	opaqueBump()
	return counter - c
}
