package clover

type shape2 interface{ side() int }
type good struct{ n int }
type evil struct{ n int }

func (g *good) side() int {
	if g.n < 0 {
		return 0
	}
	return g.n
}
func (e *evil) side() int { return -1 }

func mk2(i int) shape2 {
	if i > 0 {
		return &good{i}
	}
	return &evil{i}
}

func useShape(s shape2) int {
	return s.side()
}

func storeAll(s []int) {
	for i := range s {
		s[i] = i
	}
}

func storeMap(m map[string]int) {
	m["a"] = 1
	m["b"] = 0
}

func twoSteps(b *box) int {
	setSeven(b)
	x := b.v
	setEight(b)
	return x
}

func setEight(b *box) {
	b.v = 8
}

// a third implementer of shape2 that nobody put under contract: the run must say so
type sneaky struct{}

func (s *sneaky) side() int { return -5 }

func mk3() shape2 { return &sneaky{} }
