package clover

type outer struct {
	in pair
	p  *pair
}

func leak(o *outer) {
	o.p = &o.in
}

func nested(o *outer) int {
	o.in.a = 1
	o.p.a = 2
	return o.in.a
}

func readOnly(b *box) int {
	return b.v
}

func notReadOnly(b *box) int {
	b.v = b.v + 0
	b.v++
	return b.v
}

func each(s []int, f func(int)) {
	for _, x := range s {
		f(x)
	}
}

func sumWith(s []int) int {
	t := 0
	each(s, func(x int) { t += x })
	return t
}

func countWith(s []int) int {
	t := 0
	each(s, func(x int) { t++ })
	return t
}

func arr(a [3]int) int {
	b := a
	b[0] = 7
	return a[0]
}

func outerBreak(n int) int {
	c := 0
outer:
	for i := 0; i < n; i++ {
		for j := 0; j < n; j++ {
			if j == 1 {
				break outer
			}
			c++
		}
	}
	return c
}

func area2(x shape) int {
	return x.area() + x.area()
}

func beforeCall(y int) int {
	if y > 5 {
		return needsPos(y)
	}
	return needsPos(1)
}

func mapOfStruct(m map[string]pair, k string) int {
	p := m[k]
	p.a = 9
	return m[k].a
}

func fieldLoop(bs []*box) int {
	n := 0
	for _, b := range bs {
		b.v = 1
		n += b.v
	}
	return n
}
