package clover

func paramMut(x int) int {
	x = x + 1
	return x
}

func twoResults(a, b int) (int, bool) {
	if a > b {
		return a, true
	}
	return b, false
}

func zeroValue(m map[string]int) int {
	return m["x"]
}

func nilMapWrite(m map[string]int) {
	m["x"] = 1
}

func reinterp(u uint64) int64 {
	return int64(u)
}

func minDiv(a int64) int64 {
	return a / -1
}

func ifaceEq(a, b interface{}) bool {
	return a == b
}

func strOps(a, b string) bool {
	return a < b
}

func strIdx(a string) byte {
	if len(a) > 0 {
		return a[0]
	}
	return 0
}

func derefCopy(p, q *pair) {
	*p = *q
	q.a = 100
}

func otherBox(bs []*box, other *box) int {
	other.v = 3
	for _, b := range bs {
		b.v = 1
	}
	return other.v
}

func swFall(x int) int {
	r := 0
	switch x {
	case 1:
		r = 10
		fallthrough
	case 2:
		r += 1
	default:
		r = -1
	}
	return r
}
