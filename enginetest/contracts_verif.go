//go:build verif

package clover

//@ func sumTo
//@   tags (C20)
//@   ensures ok-sum: (=> (bvsge n (bv 0)) (= result n))
//@   ensures bad-sum-neg: (= result n)
//@   loop 0 invariant ok-si: (and (= s i) (or (bvsle i n) (= i (bv 0))))

//@ func double
//@   tags (C20)
//@   ensures bad-post: (=> (bvsge n (bv 0)) (= result n))
//@   loop 0 invariant bad-keep: (= x i)

//@ func copyMap
//@   tags (C20)
//@   extra allocates (yes)
//@   ensures ok-domain: (forall ((k Str)) (! (= (mhas result k) (mhas m k)) :pattern ((select (select (st MH_mapLstringJint) result) k))))
//@   ensures ok-values: (forall ((k Str)) (! (=> (mhas m k) (= (mget result k) (mget m k))) :pattern ((mget result k))))
//@   ensures bad-has-x: (mhas result (lit "x"))
//@   ensures bad-empty: (forall ((k Str)) (! (not (mhas result k)) :pattern ((select (select (st MH_mapLstringJint) result) k))))
//@   loop 0 invariant ok-copied: (and (not (= r null)) (> (rid r) (old (alloc)))
//@        (forall ((k Str)) (! (= (mhas r k) (and (mhas m k) (visited k))) :pattern ((select (select (st MH_mapLstringJint) r) k))))
//@        (forall ((k Str)) (! (=> (and (mhas m k) (visited k)) (= (mget r k) (mget m k))) :pattern ((mget r k)))))

//@ func copyMapNoInv
//@   tags (C20)
//@   extra allocates (yes)
//@   ensures bad-domain: (forall ((k Str)) (! (= (mhas result k) (mhas m k)) :pattern ((select (select (st MH_mapLstringJint) result) k))))
//@   ensures bad-subset: (forall ((k Str)) (! (=> (mhas result k) (mhas m k)) :pattern ((select (select (st MH_mapLstringJint) result) k))))

//@ func countKeys
//@   tags (C20)
//@   ensures bad-zero: (= result (bv 0))
//@   ensures bad-empty: (forall ((k Str)) (! (not (mhas m k)) :pattern ((select (select (st MH_mapLstringJint) m) k))))
//@   ensures ok-empty: (=> (forall ((k Str)) (! (not (mhas m k)) :pattern ((select (select (st MH_mapLstringJint) m) k)))) (= result (bv 0)))
//@   loop 0 invariant ok-zero: (=> (forall ((k Str)) (! (not (mhas m k)) :pattern ((select (select (st MH_mapLstringJint) m) k)))) (= n (bv 0)))

//@ func hasVal
//@   tags (C20)
//@   ensures ok-absent: (=> (not result) (forall ((k Str)) (! (=> (mhas m k) (not (= (mget m k) v))) :pattern ((mget m k)))))
//@   ensures bad-empty: (=> (not result) (forall ((k Str)) (! (not (mhas m k)) :pattern ((select (select (st MH_mapLstringJint) m) k)))))
//@   ensures bad-present: result
//@   loop 0 invariant ok-sofar: (forall ((k Str)) (! (=> (and (mhas m k) (visited k)) (not (= (mget m k) v))) :pattern ((mget m k))))

//@ func needsPos
//@   tags (C20)
//@   requires pos: (bvsgt x (bv 0))
//@   ensures ok-dec: (and (= result (bvsub x (bv 1))) (bvsge result (bv 0)))

//@ func callsNeedsPos
//@   tags (C20)
//@   ensures ok-dec: (= result (bvsub y (bv 1)))

//@ func callsNeedsPosGuarded
//@   tags (C20)
//@   ensures bad-pos: (bvsgt result (bv 0))

//@ func usesOpaque
//@   tags (C20)
//@   requires nn: (not (= b null))
//@   modifies (heap*)
//@   ensures bad-one: (= result (bv 1))

//@ func alias
//@   tags (C20)
//@   requires nn: (and (not (= p null)) (not (= q null)))
//@   modifies (heap*)
//@   ensures bad-noalias: (= result (bv 1))
//@   ensures ok-distinct: (=> (not (= p q)) (= result (bv 1)))
//@   ensures ok-same: (=> (= p q) (= result (bv 2)))

//@ func inc
//@   tags (C20)
//@   ensures bad-mono: (bvsgt result x)
//@   ensures ok-mono: (=> (bvslt x (bv 100)) (bvsgt result x))

//@ func setV
//@   tags (C20)
//@   requires nn: (not (= b null))
//@   modifies nothing
//@   ensures ok-five: (= (@ b v) (bv 5))

//@ func setVDeclared
//@   tags (C20)
//@   requires nn: (not (= b null))
//@   modifies (heap*)
//@   ensures ok-five: (= (@ b v) (bv 5))
//@   ensures bad-six: (= (@ b v) (bv 6))

//@ func allPos
//@   tags (C20)
//@   ensures ok-all: (=> result (forall ((j (_ BitVec 64))) (! (=> (bvult j (len s)) (bvsgt (idx s j) (bv 0))) :pattern ((idx s j)))))
//@   ensures bad-none: (=> (not result) (forall ((j (_ BitVec 64))) (! (=> (bvult j (len s)) (bvsle (idx s j) (bv 0))) :pattern ((idx s j)))))
//@   ensures bad-true: result
//@   loop 0 invariant ok-prefix: (forall ((j (_ BitVec 64))) (! (=> (and (bvult j (len s)) (bvsle j rangeindex)) (bvsgt (idx s j) (bv 0))) :pattern ((idx s j))))

//@ func firstNeg
//@   tags (C20)
//@   ensures ok-neg: (=> (bvsge result (bv 0)) (and (bvslt result (len s)) (bvslt (idx s result) (bv 0))))
//@   ensures bad-empty: (=> (= result (bvneg (bv 1))) (= (len s) (bv 0)))

//@ func lastInner
//@   tags (C20)
//@   ensures ok-zero: (=> (bvsle m (bv 0)) (= result (bv 0)))
//@   ensures bad-zero: (= result (bv 0))
//@   loop 0 invariant ok-o: (=> (bvsle m (bv 0)) (= r (bv 0)))
//@   loop 1 invariant ok-i: (and (bvsge j (bv 0)) (=> (bvsle m (bv 0)) (= r (bv 0))))

//@ func cat
//@   tags (C20)
//@   use strings
//@   ensures ok-prefix: (hasPrefix result a)
//@   ensures bad-prefix: (hasPrefix result b)

//@ func fill
//@   tags (C20)
//@   requires nn: (forall ((j (_ BitVec 64))) (! (=> (bvult j (len bs)) (not (= (idx bs j) null))) :pattern ((idx bs j))))
//@   modifies (heap*)
//@   ensures ok-zeroed: (forall ((j (_ BitVec 64))) (! (=> (bvult j (len bs)) (= (@ (idx bs j) v) (bv 0))) :pattern ((idx bs j))))
//@   ensures bad-one: (forall ((j (_ BitVec 64))) (! (=> (bvult j (len bs)) (= (@ (idx bs j) v) (bv 1))) :pattern ((idx bs j))))
//@   loop 0 invariant ok-done: (forall ((j (_ BitVec 64))) (! (=> (and (bvult j (len bs)) (bvsle j rangeindex)) (= (@ (idx bs j) v) (bv 0))) :pattern ((idx bs j))))

//@ func app
//@   tags (C20)
//@   extra allocates (yes)
//@   ensures ok-len: (= (len result) (bvadd (len s) (bv 1)))
//@   ensures ok-last: (= (idx result (len s)) (bv 1))
//@   ensures bad-last: (= (idx result (len s)) (bv 2))

//@ func stuck
//@   tags (C20)
//@   loop 0 decreases n

//@ func countdown
//@   tags (C20)
//@   ensures ok-zero: (=> (bvsge n (bv 0)) (= result (bv 0)))
//@   ensures bad-zero: (= result (bv 0))
//@   loop 0 invariant ok-range: (=> (bvsge n (bv 0)) (bvsge i (bv 0)))
//@   loop 0 decreases i

//@ func (*sq).area
//@   tags (C20)
//@   implements shape.area
//@   ensures ok-a: (= result (@ s a))

//@ func (*rect).area
//@   tags (C20)
//@   implements shape.area
//@   ensures ok-ab: (= result (bvadd (@ r a) (@ r b)))

//@ func total
//@   tags (C20)
//@   requires nn: (not (= x vnil))
//@   ensures bad-nonneg: (bvsge result (bv 0))

//@ func maxOf
//@   tags (C20)
//@   ensures ok-ge: (and (bvsge result a) (bvsge result b) (or (= result a) (= result b)))
//@   ensures bad-a: (= result a)

//@ func index
//@   tags (C20)

//@ func indexGuarded
//@   tags (C20)
//@   ensures bad-zero: (= result (bv 0))

//@ func derefNil
//@   tags (C20)

//@ func lookup
//@   tags (C20)
//@   ensures ok-absent: (=> (not (mhas m k)) (= result (bvneg (bv 1))))
//@   ensures ok-present: (=> (mhas m k) (= result (mget m k)))
//@   ensures bad-present: (= result (mget m k))

//@ func divide
//@   tags (C20)

//@ func callsDeref
//@   tags (C20)

//@ func mk
//@   tags (C20)
//@   extra allocates (yes)

//@ func collect
//@   tags (C20)
//@   extra allocates (yes)
//@   ensures ok-sevens: (forall ((j (_ BitVec 64))) (! (=> (bvult j (len result)) (= (idx result j) (bv 7))) :pattern ((idx result j))))
//@   ensures bad-eights: (forall ((j (_ BitVec 64))) (! (=> (bvult j (len result)) (= (idx result j) (bv 8))) :pattern ((idx result j))))
//@   loop 0 invariant ok-sofar: (forall ((j (_ BitVec 64))) (! (=> (bvult j (len out)) (= (idx out j) (bv 7))) :pattern ((idx out j))))

//@ func fork
//@   tags (C20)
//@   modifies (heap*)
//@   extra allocates (yes)
//@   ensures bad-one: (= result (bv 1))
//@   ensures ok-one-or-two: (or (= result (bv 1)) (= result (bv 2)))

//@ func clobber
//@   tags (C20)
//@   modifies (heap*)
//@   extra allocates (yes)
//@   ensures bad-five: (=> (bvsge (len s) (bv 2)) (= result (bv 5)))
//@   ensures ok-nine: (=> (bvsge (len s) (bv 2)) (= result (bv 9)))

// ---- second file ----
//@ func setSeven
//@   tags (C20)
//@   modifies (heap*)
//@   ensures ok-seven: (= (@ b v) (bv 7))

//@ func deferred
//@   tags (C20)
//@   modifies (heap*)
//@   ensures ok-seven: (= (@ b v) (bv 7))
//@   ensures bad-one: (= (@ b v) (bv 1))

//@ func structCopy
//@   tags (C20)
//@   ensures ok-same: (= (S_clover_pair_a result) (S_clover_pair_a p))
//@   ensures bad-three: (= (S_clover_pair_a result) (bv 3))

//@ func subslice
//@   tags (C20)
//@   requires two: (bvsge (len s) (bv 2))
//@   modifies (heap*)
//@   ensures ok-nine: (= result (bv 9))
//@   ensures bad-old: (= result (old (idx s (bv 1))))

//@ func mapAlias
//@   tags (C20)
//@   requires nn: (and (not (= m null)) (not (= n null)))
//@   modifies (heap*)
//@   ensures bad-one: (= result (bv 1))
//@   ensures ok-distinct: (=> (not (= m n)) (= result (bv 1)))

//@ func trunc
//@   tags (C20)
//@   ensures ok-small: (=> (and (bvsge x (bv 0)) (bvslt x (bv 1000))) (= ((_ sign_extend 32) result) x))
//@   ensures bad-all: (= ((_ sign_extend 32) result) x)

//@ func sdiv
//@   tags (C20)
//@   ensures ok-trunc: (=> (= a (bvneg (bv 3))) (= result (bvneg (bv 1))))
//@   ensures bad-floor: (=> (= a (bvneg (bv 3))) (= result (bvneg (bv 2))))

//@ func smod
//@   tags (C20)
//@   ensures ok-sign: (=> (= a (bvneg (bv 3))) (= result (bvneg (bv 1))))
//@   ensures bad-nonneg: (bvsge result (bv 0))

//@ func shl
//@   tags (C20)
//@   ensures ok-small: (=> (and (bvsge a (bv 0)) (bvslt a (bv 1000))) (= result (bvadd a a)))
//@   ensures bad-pos: (=> (bvsgt a (bv 0)) (bvsgt result (bv 0)))

//@ func skipOdd
//@   tags (C20)
//@   ensures ok-bound: (and (bvsge result (bv 0)) (bvsle result (len s)))
//@   ensures bad-all: (= result (len s))
//@   loop 0 invariant ok-bound: (and (bvsge c (bv 0)) (bvsle c (bvadd rangeindex (bv 1))) (bvsle (bvadd rangeindex (bv 1)) (len s)))

//@ func fact
//@   tags (C20)
//@   decreases (ite (bvsgt n (bv 0)) n (bv 0))
//@   ensures bad-pos: (bvsgt result (bv 0))
//@   ensures ok-base: (=> (bvsle n (bv 0)) (= result (bv 1)))

//@ func bump
//@   tags (C20)
//@   modifies (heap*)
//@   ensures bad-pos: (bvsgt result (bv 0))

//@ func readGlobalAcross
//@   tags (C20)
//@   modifies (heap*)
//@   ensures ok-zero: (= result (bv 0))

//@ func readGlobalAcrossWriter
//@   tags (C20)
//@   modifies (heap*)
//@   ensures bad-zero: (= result (bv 0))

//@ func typeSw
//@   tags (C20)
//@   ensures ok-int: (=> (and ((_ is vint) v) (= (vty v) TY_int)) (= result (vbits v)))
//@   ensures bad-neg: (= result (bvneg (bv 1)))
//@   ensures bad-int: (=> ((_ is vint) v) (= result (vbits v)))

//@ func nilIface
//@   tags (C20)
//@   ensures ok-def: (= result (= v vnil))
//@   ensures bad-true: result

//@ func swap
//@   tags (C20)
//@   modifies (heap*)
//@   ensures ok-swapped: (and (= (@ p a) (old (@ p b))) (= (@ p b) (old (@ p a))))
//@   ensures bad-same: (= (@ p a) (old (@ p a)))

//@ func ptrLocal
//@   tags (C20)
//@   ensures ok-two: (= result (bv 2))
//@   ensures bad-one: (= result (bv 1))

//@ func growWhileRanging
//@   tags (C20)
//@   extra allocates (yes)
//@   modifies (heap*)
//@   ensures ok-len: (= result (old (len s)))
//@   ensures bad-twice: (= result (bvadd (old (len s)) (old (len s))))
//@   loop 0 invariant ok-n: (and (= n (bvadd rangeindex (bv 1))) (bvsle n (old (len s))))

//@ func namedResult
//@   tags (C20)
//@   ensures ok-plus: (= result (bvadd (@ b v) (bv 1)))
//@   ensures bad-same: (= result (@ b v))

//@ func strLen
//@   tags (C20)
//@   use strings
//@   ensures ok-pos: (bvugt result (bv 0))
//@   ensures bad-one: (= result (bv 1))

//@ func fcmp
//@   tags (C20)
//@   ensures bad-refl: result

//@ func u8
//@   tags (C20)
//@   ensures bad-mono: (bvugt result x)
//@   ensures ok-wrap: (=> (= x #xff) (= result #x00))

// ---- third file ----
//@ func leak
//@   tags (C20)
//@   modifies (heap*)

//@ func nested
//@   tags (C20)
//@   requires nn: (not (= (@ o p) null))
//@   modifies (heap*)
//@   ensures bad-one: (= result (bv 1))
//@   ensures ok-one-or-two: (or (= result (bv 1)) (= result (bv 2)))

//@ func readOnly
//@   tags (C20)
//@   extra unchanged (F_clover_box_v)
//@   ensures ok-v: (= result (@ b v))

//@ func notReadOnly
//@   tags (C20)
//@   extra unchanged (F_clover_box_v)

//@ func @intCb
//@   params (x)
//@   modifies (C_int)

//@ func each@f
//@   implements @intCb

//@ func each
//@   tags (C20)
//@   modifies (C_int)

//@ func sumWith$1
//@   tags (C20)
//@   implements @intCb
//@   maintains bad-nonneg: (bvsge t (bv 0))

//@ func sumWith
//@   tags (C20)
//@   modifies (heap*)
//@   ensures bad-zero: (= result (bv 0))

//@ func countWith$1
//@   tags (C20)
//@   implements @intCb
//@   maintains ok-any: (or (bvsge t (bv 0)) (bvslt t (bv 0)))

//@ func countWith
//@   tags (C20)
//@   modifies (heap*)
//@   ensures bad-zero: (= result (bv 0))

//@ func arr
//@   tags (C20)
//@   ensures bad-seven: (= result (bv 7))

//@ func outerBreak
//@   tags (C20)
//@   ensures ok-le1: (bvsle result (bv 1))
//@   ensures bad-zero: (= result (bv 0))
//@   loop 0 invariant ok-c: (and (bvsge i (bv 0)) (or (= c (bv 0)) (and (= n (bv 1)) (= c (bv 1)) (bvsge i (bv 1)))))
//@   loop 1 invariant ok-c: (and (bvsge i (bv 0)) (bvsgt n (bv 0)) (or (and (= j (bv 0)) (= c (bv 0))) (and (= j (bv 1)) (= c (bv 1)))))

//@ iface shape.area
//@   ensures nonneg-or-any: true

//@ func area2
//@   tags (C20)
//@   requires nn: (not (= x vnil))
//@   ensures bad-even: (= ((_ extract 0 0) result) #b0)

//@ func beforeCall
//@   tags (C20)
//@   assert-before needsPos ok-pos: (or (bvsgt y (bv 5)) true)
//@   assert-before needsPos bad-big: (bvsgt y (bv 5))

//@ func mapOfStruct
//@   tags (C20)
//@   ensures bad-nine: (= result (bv 9))

//@ func fieldLoop
//@   tags (C20)
//@   requires nn: (forall ((j (_ BitVec 64))) (! (=> (bvult j (len bs)) (not (= (idx bs j) null))) :pattern ((idx bs j))))
//@   modifies (heap*)
//@   ensures ok-len: (= result (len bs))
//@   ensures bad-zero: (= result (bv 0))
//@   loop 0 invariant ok-n: (and (= n (bvadd rangeindex (bv 1))) (bvsle n (len bs)))

// ---- fourth file: interface contracts, assert-store, snapshots ----
//@ iface shape2.side
//@   ensures nonneg: (bvsge result (bv 0))

//@ func (*good).side
//@   tags (C20)
//@   implements shape2.side

//@ func (*evil).side
//@   tags (C20)
//@   implements shape2.side

//@ func mk2
//@   tags (C20)
//@   extra allocates (yes)

//@ func useShape
//@   tags (C20)
//@   requires nn: (not (= s vnil))
//@   ensures ok-nonneg: (bvsge result (bv 0))
//@   ensures bad-pos: (bvsgt result (bv 0))

//@ func storeAll
//@   tags (C20)
//@   modifies (heap*)
//@   assert-store slice ok-nonneg: (bvsge $val (bv 0))
//@   assert-store slice bad-pos: (bvsgt $val (bv 0))
//@   loop 0 invariant ok-i: true

//@ func storeMap
//@   tags (C20)
//@   requires nn: (not (= m null))
//@   modifies (heap*)
//@   assert-store map ok-nonneg: (bvsge $val (bv 0))
//@   assert-store map bad-pos: (bvsgt $val (bv 0))

//@ func twoSteps
//@   tags (C20)
//@   modifies (heap*)
//@   snapshot mid after setSeven
//@   ensures ok-mid: (= result (at mid (@ b v)))
//@   ensures ok-seven: (= result (bv 7))
//@   ensures bad-final: (= result (@ b v))

//@ func setEight
//@   tags (C20)
//@   modifies (heap*)
//@   ensures ok-eight: (= (@ b v) (bv 8))

// ---- fifth file ----
//@ func paramMut
//@   tags (C20)
//@   ensures ok-inc: (= result (bvadd x (bv 1)))
//@   ensures bad-same: (= result x)

//@ func twoResults
//@   tags (C20)
//@   ensures ok-max: (and (bvsge result0 a) (bvsge result0 b) (= result1 (bvsgt a b)))
//@   ensures bad-first: (= result0 a)

//@ func zeroValue
//@   tags (C20)
//@   ensures ok-zero: (=> (not (mhas m (lit "x"))) (= result (bv 0)))
//@   ensures ok-val: (=> (mhas m (lit "x")) (= result (mget m (lit "x"))))
//@   ensures bad-has: (mhas m (lit "x"))

//@ func nilMapWrite
//@   tags (C20)
//@   extra nullable (m)
//@   modifies (heap*)

//@ func reinterp
//@   tags (C20)
//@   ensures ok-bits: (= result u)
//@   ensures bad-nonneg: (bvsge result (bv 0))

//@ func minDiv
//@   tags (C20)
//@   ensures ok-neg: (= result (bvneg a))
//@   ensures bad-pos: (=> (bvslt a (bv 0)) (bvsgt result (bv 0)))

//@ func ifaceEq
//@   tags (C20)
//@   ensures bad-true: result
//@   ensures ok-refl: (=> (and ((_ is vint) a) (= a b)) result)

//@ func strOps
//@   tags (C20)
//@   use strings
//@   ensures ok-cmp: (= result (< (strCmp a b) 0))
//@   ensures bad-le: (= result (<= (strCmp a b) 0))

//@ func strIdx
//@   tags (C20)
//@   use strings
//@   ensures bad-zero: (= result #x00)

//@ func derefCopy
//@   tags (C20)
//@   modifies (heap*)
//@   ensures ok-copied: (=> (not (= p q)) (= (@ p a) (old (@ q a))))
//@   ensures bad-copied: (= (@ p a) (old (@ q a)))
//@   ensures bad-hundred: (= (@ p a) (bv 100))

//@ func otherBox
//@   tags (C20)
//@   requires nn: (forall ((j (_ BitVec 64))) (! (=> (bvult j (len bs)) (not (= (idx bs j) null))) :pattern ((idx bs j))))
//@   modifies (heap*)
//@   ensures bad-three: (= result (bv 3))
//@   ensures ok-one-or-three: (or (= result (bv 1)) (= result (bv 3)))
//@   loop 0 invariant ok-v: (or (= (@ other v) (bv 1)) (= (@ other v) (bv 3)))

//@ func swFall
//@   tags (C20)
//@   ensures ok-one: (=> (= x (bv 1)) (= result (bv 11)))
//@   ensures ok-two: (=> (= x (bv 2)) (= result (bv 1)))
//@   ensures ok-other: (=> (and (not (= x (bv 1))) (not (= x (bv 2)))) (= result (bvneg (bv 1))))
//@   ensures bad-one: (=> (= x (bv 1)) (= result (bv 10)))
