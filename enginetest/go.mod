module github.com/ostafen/clover/v2

go 1.13
