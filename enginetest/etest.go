// Package clover here is NOT clover: it is the must-pass / must-fail corpus of the govc engine
// (/verif/tools/engine_selftest.sh). Every obligation whose label starts with "bad" must stay undischarged,
// every other obligation must be discharged. The module path is clover's because govc keys contracts by it.
package clover

type box struct{ v int }

func sumTo(n int) int {
	s := 0
	for i := 0; i < n; i++ {
		s += 1
	}
	return s
}

func double(n int) int {
	x := 0
	for i := 0; i < n; i++ {
		x += 2
	}
	return x
}

func copyMap(m map[string]int) map[string]int {
	r := make(map[string]int)
	for k, v := range m {
		r[k] = v
	}
	return r
}

func copyMapNoInv(m map[string]int) map[string]int {
	r := make(map[string]int)
	for k, v := range m {
		r[k] = v
	}
	return r
}

func countKeys(m map[string]int) int {
	n := 0
	for range m {
		n++
	}
	return n
}

func hasVal(m map[string]int, v int) bool {
	for _, x := range m {
		if x == v {
			return true
		}
	}
	return false
}

func needsPos(x int) int {
	return x - 1
}

func callsNeedsPos(y int) int {
	return needsPos(y)
}

func callsNeedsPosGuarded(y int) int {
	if y > 0 {
		return needsPos(y)
	}
	return 0
}

func opaque(b *box) {
	for i := 0; i < 3; i++ {
		b.v++
	}
}

func usesOpaque(b *box) int {
	b.v = 1
	opaque(b)
	return b.v
}

func alias(p, q *box) int {
	p.v = 1
	q.v = 2
	return p.v
}

func inc(x int) int {
	return x + 1
}

func setV(b *box) {
	b.v = 5
}

func setVDeclared(b *box) {
	b.v = 5
}

func allPos(s []int) bool {
	for _, x := range s {
		if x <= 0 {
			return false
		}
	}
	return true
}

func firstNeg(s []int) int {
	r := -1
	for i, x := range s {
		if x < 0 {
			r = i
			break
		}
	}
	return r
}

func lastInner(n, m int) int {
	r := 0
	for i := 0; i < n; i++ {
		r = 0
		for j := 0; j < m; j++ {
			r = j
		}
	}
	return r
}

func cat(a, b string) string {
	return a + b
}

func fill(bs []*box) {
	for _, b := range bs {
		b.v = 0
	}
}

func app(s []int) []int {
	t := append(s, 1)
	return t
}

func stuck(n int) int {
	i := 0
	for i < n {
	}
	return i
}

func countdown(n int) int {
	i := n
	for i > 0 {
		i--
	}
	return i
}

type shape interface{ area() int }
type sq struct{ a int }
type rect struct{ a, b int }

func (s *sq) area() int   { return s.a }
func (r *rect) area() int { return r.a + r.b }

func total(x shape) int {
	return x.area()
}

func maxOf(a, b int) int {
	if a > b {
		return a
	}
	return b
}

func index(s []int, i int) int {
	return s[i]
}

func indexGuarded(s []int, i int) int {
	if i >= 0 && i < len(s) {
		return s[i]
	}
	return 0
}

func derefNil(b *box) int {
	return b.v
}

func lookup(m map[string]int, k string) int {
	v, ok := m[k]
	if !ok {
		return -1
	}
	return v
}

func divide(a, b int) int {
	return a / b
}

func callsDeref() int {
	var b *box
	return derefNil(b)
}

func mk(i int) shape {
	if i > 0 {
		return &sq{i}
	}
	return &rect{i, i}
}

// linear idiom: modelled as copying
func collect(n int) []int {
	var out []int
	for i := 0; i < n; i++ {
		out = append(out, 7)
	}
	return out
}

// two appends to the same header: the second may overwrite the element written by the first
func fork(s []int) int {
	a := append(s, 1)
	b := append(s, 2)
	_ = b
	return a[len(s)]
}

// reslice then append: writes into cells still visible through the parameter
func clobber(s []int) int {
	if len(s) < 2 {
		return 0
	}
	s[1] = 5
	t := s[:1]
	t = append(t, 9)
	_ = t
	return s[1]
}
