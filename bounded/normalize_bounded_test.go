package internal

// BOUNDED STAND-IN (not a proof) for the reflection-driven part of property C18; injected into package
// internal with `go test -overlay` by /verif/tools/bounded_c18.sh. The laws are taken from the statement of C18:
//
//	L1 canonical   the result is built from nil, bool, int64, uint64, float64, string, time.Time,
//	               []interface{} and map[string]interface{} only ([]byte payloads are kept as they are)
//	L2 idempotent  Normalize(Normalize(v)) == Normalize(v)
//	L3 determinism two calls give equal results
//	L4 leaves      integers / floats / strings / bools keep their value; pointers of any depth are followed to the
//	               value or to nil
//	L5 containers  slices and arrays become generic slices elementwise, string-keyed maps become generic maps
//	L6 structs     exported fields only, `clover` tags: rename, omitempty (a non-nil pointer is not empty),
//	               embedded structs flattened
//	L7 unsupported chan / func / maps with non-string keys are rejected
//
// Bound: every value of the leaf menu below (one value per kind and width, zero and non-zero), wrapped by every
// sequence of at most DEPTH wrappers out of {pointer, nil pointer, slice, array, map[string], struct field, omitempty
// struct field, embedded struct}, DEPTH = 3 (quick tier) or 4 (thorough tier). The enumeration is exhaustive within that bound.

import (
	"fmt"
	"os"
	"reflect"
	"strings"
	"testing"
	"time"
)

var boundedDepth = func() int {
	if os.Getenv("VERIF_BOUNDED_DEPTH") == "4" {
		return 4
	}
	return 3
}()

type bcase struct {
	name string
	v    interface{}
	want interface{} // expected canonical result
	err  bool
}

func canonical(v interface{}) error {
	switch x := v.(type) {
	case nil, bool, int64, uint64, float64, string, time.Time, []byte:
		return nil
	case []interface{}:
		for i, e := range x {
			if err := canonical(e); err != nil {
				return fmt.Errorf("[%d]: %v", i, err)
			}
		}
		return nil
	case map[string]interface{}:
		for k, e := range x {
			if err := canonical(e); err != nil {
				return fmt.Errorf(".%s: %v", k, err)
			}
		}
		return nil
	}
	return fmt.Errorf("non-canonical %T", v)
}

func eqCanon(a, b interface{}) bool {
	if ta, ok := a.(time.Time); ok {
		tb, ok2 := b.(time.Time)
		return ok2 && ta.Equal(tb)
	}
	switch x := a.(type) {
	case []interface{}:
		y, ok := b.([]interface{})
		if !ok || len(x) != len(y) {
			return false
		}
		for i := range x {
			if !eqCanon(x[i], y[i]) {
				return false
			}
		}
		return true
	case map[string]interface{}:
		y, ok := b.(map[string]interface{})
		if !ok || len(x) != len(y) {
			return false
		}
		for k, v := range x {
			w, has := y[k]
			if !has || !eqCanon(v, w) {
				return false
			}
		}
		return true
	}
	return reflect.DeepEqual(a, b)
}

var bT0 = time.Date(2020, 1, 2, 3, 4, 5, 0, time.UTC)

func leaves() []bcase {
	return []bcase{
		{"nil", nil, nil, false},
		{"bool-f", false, false, false}, {"bool-t", true, true, false},
		{"int-0", int(0), int64(0), false}, {"int", int(-7), int64(-7), false},
		{"int8", int8(-8), int64(-8), false}, {"int16", int16(300), int64(300), false},
		{"int32", int32(-70000), int64(-70000), false}, {"int64", int64(1) << 60, int64(1) << 60, false},
		{"uint-0", uint(0), uint64(0), false}, {"uint", uint(7), uint64(7), false},
		{"uint8", uint8(200), uint64(200), false}, {"uint16", uint16(60000), uint64(60000), false},
		{"uint32", uint32(4000000000), uint64(4000000000), false}, {"uint64", uint64(1) << 63, uint64(1) << 63, false},
		{"f32", float32(1.5), float64(1.5), false}, {"f64-0", float64(0), float64(0), false}, {"f64", float64(-2.25), float64(-2.25), false},
		{"str-0", "", "", false}, {"str", "x.y", "x.y", false},
		{"time", bT0, bT0, false},
		{"chan", make(chan int), nil, true},
		{"func", func() {}, nil, true},
		{"map-int-key", map[int]string{1: "a"}, nil, true},
	}
}

type wrapper struct {
	name string
	wrap func(c bcase) (bcase, bool)
}

func isEmptyWant(c bcase) bool {
	// emptiness of the Go value (before normalisation) as the statement of omitempty has it: zero numbers, false,
	// "", nil pointers / interfaces, empty containers; a non-nil pointer is NOT empty whatever it points to
	if c.v == nil {
		return true
	}
	rv := reflect.ValueOf(c.v)
	switch rv.Kind() {
	case reflect.Ptr, reflect.Interface:
		return rv.IsNil()
	case reflect.Slice, reflect.Map, reflect.Array, reflect.String:
		return rv.Len() == 0
	case reflect.Bool:
		return !rv.Bool()
	case reflect.Int, reflect.Int8, reflect.Int16, reflect.Int32, reflect.Int64:
		return rv.Int() == 0
	case reflect.Uint, reflect.Uint8, reflect.Uint16, reflect.Uint32, reflect.Uint64:
		return rv.Uint() == 0
	case reflect.Float32, reflect.Float64:
		return rv.Float() == 0
	}
	return false
}

func typeOfCase(c bcase) reflect.Type {
	if c.v == nil {
		return reflect.TypeOf((*interface{})(nil)).Elem()
	}
	return reflect.TypeOf(c.v)
}

func valueOfCase(c bcase, t reflect.Type) reflect.Value {
	if c.v == nil {
		return reflect.Zero(t)
	}
	return reflect.ValueOf(c.v)
}

func wrappers() []wrapper {
	return []wrapper{
		{"ptr", func(c bcase) (bcase, bool) {
			if c.v == nil {
				return c, false
			}
			p := reflect.New(reflect.TypeOf(c.v))
			p.Elem().Set(reflect.ValueOf(c.v))
			return bcase{"*" + c.name, p.Interface(), c.want, c.err}, true
		}},
		{"nilptr", func(c bcase) (bcase, bool) {
			if c.v == nil {
				return c, false
			}
			return bcase{"nil*" + c.name, reflect.Zero(reflect.PtrTo(reflect.TypeOf(c.v))).Interface(), nil, false}, true
		}},
		{"slice", func(c bcase) (bcase, bool) {
			t := typeOfCase(c)
			if t.Kind() == reflect.Uint8 {
				return c, false // []uint8 payloads are kept as they are (listed in the evidence, not judged)
			}
			s := reflect.MakeSlice(reflect.SliceOf(t), 2, 2)
			s.Index(0).Set(valueOfCase(c, t))
			s.Index(1).Set(valueOfCase(c, t))
			return bcase{"[]" + c.name, s.Interface(), []interface{}{c.want, c.want}, c.err}, true
		}},
		{"empty-slice", func(c bcase) (bcase, bool) {
			t := typeOfCase(c)
			if t.Kind() == reflect.Uint8 {
				return c, false
			}
			return bcase{"[0]" + c.name, reflect.MakeSlice(reflect.SliceOf(t), 0, 0).Interface(), []interface{}{}, false}, true
		}},
		{"array", func(c bcase) (bcase, bool) {
			t := typeOfCase(c)
			if t.Kind() == reflect.Uint8 {
				return c, false
			}
			a := reflect.New(reflect.ArrayOf(1, t)).Elem()
			a.Index(0).Set(valueOfCase(c, t))
			return bcase{"[1]" + c.name, a.Interface(), []interface{}{c.want}, c.err}, true
		}},
		{"map", func(c bcase) (bcase, bool) {
			t := typeOfCase(c)
			m := reflect.MakeMap(reflect.MapOf(reflect.TypeOf(""), t))
			m.SetMapIndex(reflect.ValueOf("k"), valueOfCase(c, t))
			return bcase{"map{k:" + c.name + "}", m.Interface(), map[string]interface{}{"k": c.want}, c.err}, true
		}},
		{"field", func(c bcase) (bcase, bool) {
			t := typeOfCase(c)
			st := reflect.StructOf([]reflect.StructField{
				{Name: "A", Type: t, Tag: `clover:"renamed"`},
				{Name: "B", Type: reflect.TypeOf(0)},
			})
			s := reflect.New(st).Elem()
			s.Field(0).Set(valueOfCase(c, t))
			s.Field(1).SetInt(5)
			return bcase{"struct{renamed:" + c.name + "}", s.Interface(), map[string]interface{}{"renamed": c.want, "B": int64(5)}, c.err}, true
		}},
		{"omitempty", func(c bcase) (bcase, bool) {
			t := typeOfCase(c)
			st := reflect.StructOf([]reflect.StructField{
				{Name: "A", Type: t, Tag: `clover:"a,omitempty"`},
				{Name: "B", Type: reflect.TypeOf(""), Tag: `clover:",omitempty"`},
			})
			s := reflect.New(st).Elem()
			s.Field(0).Set(valueOfCase(c, t))
			want := map[string]interface{}{}
			errWant := c.err
			if !isEmptyWant(c) {
				want["a"] = c.want
			} else {
				errWant = false // an omitted field is never looked at
			}
			return bcase{"struct{a,omitempty:" + c.name + "}", s.Interface(), want, errWant}, true
		}},
	}
}

type bInner struct {
	X int    `clover:"x"`
	Y string `clover:"y,omitempty"`
	z int
}
type bOuter struct {
	BEmb
	N  uint8
	P  *int    `clover:"p,omitempty"`
	Q  *string `clover:"q,omitempty"`
	In bInner  `clover:"in"`
	T  *time.Time
	u  string
}
func fixedStructCases() []bcase {
	zero, empty := 0, ""
	return []bcase{
		{"outer-zero-ptrs", bOuter{BEmb{1.5}, 3, &zero, &empty, bInner{7, "", 9}, nil, "u"},
			map[string]interface{}{"N": uint64(3), "p": int64(0), "q": "", "in": map[string]interface{}{"x": int64(7)}, "T": nil, "E": float64(1.5)}, false},
		{"outer-nil-ptrs", bOuter{BEmb{0}, 0, nil, nil, bInner{0, "y", 0}, &bT0, ""},
			map[string]interface{}{"N": uint64(0), "in": map[string]interface{}{"x": int64(0), "y": "y"}, "T": bT0, "E": float64(0)}, false},
	}
}

type BEmb struct{ E float32 }
type bOuter2 struct {
	BEmb
	N int
}

type bOuter3 struct {
	*BEmb
	N int
}
type bDeep struct {
	BOuter2
	Z string `clover:"z"`
}

// BOuter2 is exported so that it can be embedded in turn (two levels of flattening)
type BOuter2 struct {
	BEmb
	N int
}

func TestVerifBoundedNormalize(t *testing.T) {
	cases := leaves()
	frontier := cases
	ws := wrappers()
	for d := 0; d < boundedDepth; d++ {
		var next []bcase
		for _, c := range frontier {
			for _, w := range ws {
				if nc, ok := w.wrap(c); ok {
					next = append(next, nc)
				}
			}
		}
		cases = append(cases, next...)
		frontier = next
	}
	cases = append(cases, fixedStructCases()...)
	// embedded exported struct is flattened
	cases = append(cases, bcase{"embedded-flattened", bOuter2{BEmb{2.5}, 4}, map[string]interface{}{"E": float64(2.5), "N": int64(4)}, false})
	// embedded through a pointer: followed and flattened like the value
	cases = append(cases, bcase{"embedded-ptr-flattened", bOuter3{&BEmb{2.5}, 4}, map[string]interface{}{"E": float64(2.5), "N": int64(4)}, false})
	cases = append(cases, bcase{"ptr-to-embedded-ptr-flattened", &bOuter3{&BEmb{0}, 0}, map[string]interface{}{"E": float64(0), "N": int64(0)}, false})
	// two levels of embedding
	cases = append(cases, bcase{"embedded-twice-flattened", bDeep{BOuter2{BEmb{1}, 2}, "z"}, map[string]interface{}{"E": float64(1), "N": int64(2), "z": "z"}, false})
	failed, nonTime := 0, 0
	byLaw := map[string]int{}
	report := func(c bcase, law string, format string, a ...interface{}) {
		failed++
		byLaw[law]++
		if !strings.Contains(c.name, "time") {
			nonTime++
		}
		if failed <= 25 || (!strings.Contains(c.name, "time") && nonTime <= 25) {
			t.Errorf("BOUNDED-VIOLATION law=%s case=%s: %s", law, c.name, fmt.Sprintf(format, a...))
		}
	}
	for _, c := range cases {
		got, err := Normalize(c.v)
		if c.err {
			if err == nil {
				report(c, "L7-unsupported", "accepted, result %#v", got)
			}
			continue
		}
		if err != nil {
			report(c, "L4-L6", "rejected: %v", err)
			continue
		}
		if e := canonical(got); e != nil {
			report(c, "L1-canonical", "%v (result %#v)", e, got)
			continue
		}
		if !eqCanon(got, c.want) {
			report(c, "L4-L6-value", "got %#v want %#v", got, c.want)
			continue
		}
		again, err2 := Normalize(got)
		if err2 != nil || !eqCanon(again, got) {
			report(c, "L2-idempotent", "second pass %#v (err %v), first %#v", again, err2, got)
		}
		got2, _ := Normalize(c.v)
		if !eqCanon(got2, got) {
			report(c, "L3-deterministic", "%#v vs %#v", got2, got)
		}
	}
	t.Logf("BOUNDED-SUMMARY cases=%d depth=%d leaves=%d wrappers=%d failed=%d byLaw=%v", len(cases), boundedDepth, len(leaves()), len(ws), failed, byLaw)
}
