#!/bin/sh
# Must-fail corpus: every patch under selftest/mutants is named <Cxx>-<what>.patch, compiles, and breaks
# property Cxx; the check of Cxx must report a VIOLATION on it (CxxT-<what>.patch: the thorough tier must). Applies to /repo's working tree and reverts.
cd "$(dirname "$0")/.." || exit 2
fail=0
# 0. the verifier itself: must-pass / must-fail corpus of small functions (see tools/engine_selftest.sh)
if [ -z "${1:-}" ]; then tools/engine_selftest.sh || { echo "ENGINE SELFTEST FAILED"; fail=1; }; fi
for p in selftest/mutants/${1:-}*.patch; do
  prop=$(basename "$p" | cut -d- -f1)
  tier=quick
  case "$prop" in *T) prop=${prop%T}; tier=thorough;; esac   # CxxT-...: caught by the thorough tier only
  if ! git -C /repo apply --check "$(pwd)/$p" 2>/dev/null; then echo "SKIP (does not apply) $p"; continue; fi
  git -C /repo apply "$(pwd)/$p"
  out=$(bin/govc check -prop "$prop" -tier $tier -out "$(pwd)/out/selftest" 2>&1)
  code=$?
  if [ "$prop" = C18 ]; then   # the C18 check also runs the bounded stand-in for Normalize (see ./check)
    tools/bounded_c18.sh $tier >/dev/null; if [ $? -ne 0 ]; then out="$out
VIOLATION property=C18 replay=$(pwd)/out/C18/bounded/log.txt"; code=1; fi
  fi
  git -C /repo apply -R "$(pwd)/$p"
  if [ $code -eq 1 ] && echo "$out" | grep -q "^VIOLATION property=$prop"; then
    echo "caught  $p: $(echo "$out" | grep -c '^VIOLATION') violation(s): $(echo "$out" | grep '^VIOLATION' | head -2 | sed 's/.*replay=[^ ]*replay.[^/]*.//' | tr '\n' ' ')"
  else
    echo "MISSED  $p (exit $code)"; fail=1
  fi
done
exit $fail
