#!/usr/bin/env python3
"""Generates the contracts of the criteria visitors and of the index planner (C02, C01, C20) into the
comment-only files /repo/query/contracts_verif.go and /repo/contracts_verif.go, between the markers
'// >>> generated planner contracts' and '// <<< generated planner contracts'.
The same four result clauses (one per visitor type) appear on Criteria.Accept, on the three
CriteriaVisitor methods and, through 'implements', on every concrete Accept / Visit method."""
import re, sys

INFOSL = "[]*index.Info"
RMAP = "map[string]*index.Range"

def fields_sel(vis):   # IndexSelectVisitor.Fields of a boxed visitor
    return f"(@ (cast (rval {vis}) clover.IndexSelectVisitor) Fields)"
def fields_rng(vis):
    return f"(@ (cast (rval {vis}) clover.FieldRangeVisitor) Fields)"

def vis_req(vis):
    F = fields_sel(vis)
    return (f"(and ((_ is vref) {vis}) (not (= (rval {vis}) null)) (or (isFlatten {vis}) (isSelect {vis}) (isRangeV {vis}) (isNormV {vis}))\n"
            f"//@        (=> (isSelect {vis}) (forall ((k Str)) (! (=> (mhas {F} k) (and (not (= (mget {F} k) null)) (= (@ (mget {F} k) Field) k))) :pattern ((mget {F} k))))))")

def clauses(crit, vis, res="result"):
    F = fields_sel(vis)
    VF = fields_rng(vis)
    RM = f"(cast (rval {res}) {RMAP})"
    SL = f"(cast (lval {res}) {INFOSL})"
    out = []
    out.append(f"//@   ensures[C02,C01,C20] flatten: (=> (isFlatten {vis}) (and (isCriteria {res}) (cwf {res}) (=> (sat {crit} d) (psat {res} d))))")
    out.append(f"//@   ensures[C02,C20] select: (=> (isSelect {vis}) (and ((_ is vslice) {res}) (= (lty {res}) TY_infoslice)\n"
               f"//@        (forall ((j (_ BitVec 64))) (! (=> (bvult j (len {SL})) (and (not (= (idx {SL} j) null)) (mhas {F} (@ (idx {SL} j) Field)))) :pattern ((idx {SL} j))))))")
    out.append(f"//@   ensures[C02,C01,C20] ranges: (=> (isRangeV {vis}) (and ((_ is vref) {res}) (= (rty {res}) TY_rangemap) (not (= (rval {res}) null))\n"
               f"//@        (forall ((k Str)) (! (=> (mhas {RM} k) (and (not (= (mget {RM} k) null)) (<= (rid (mget {RM} k)) (alloc)) (rangeKx (deref (mget {RM} k))) (mhas {VF} k)\n"
               f"//@             (=> (psat {crit} d) (inRange (deref (mget {RM} k)) (dget d k))))) :pattern ((mget {RM} k))))))")
    ERR = f"(@ (cast (rval {vis}) clover.CriteriaNormalizeVisitor) err)"
    out.append(f"//@   ensures[C20,C04] normalize: (=> (isNormV {vis}) (and (or (= {res} vnil) (and (isCriteria {res}) (cshape {res}))) (=> (= {res} vnil) (not (= {ERR} vnil))) (=> (not (= (old {ERR}) vnil)) (not (= {ERR} vnil)))))")
    return "\n".join(out)

DOM = "(forall ((f Str)) (! (kx (dget d f)) :pattern ((dget d f))))"

def iface(name, crit, vis, params):
    return f"""//@ iface {name}
//@   use (criteria ranges planner heapcomps)
//@   params ({params})
//@   ghost d Doc
//@   requires wf: (ite (isNormV {vis}) (cshape {crit}) (cwf {crit}))
//@   requires visitor: {vis_req(vis)}
// the document the cover is stated for holds key-exact canonical values (assumption A14)
//@   requires domain: {DOM}
//@   modifies ((F_clover_CriteriaNormalizeVisitor_err where (r) (and (isNormV {vis}) (= r (rval {vis})))))
//@   extra allocates (yes)
{clauses(crit, vis)}
"""

query_block = []
query_block.append("// ---- criteria visitors (C02, C01, C20): one result clause per visitor type; d is an arbitrary document ----\n")
query_block.append(iface("Criteria.Accept", "self", "v", "v"))
for n in ("Unary", "Binary", "Not"):
    query_block.append(iface(f"CriteriaVisitor.Visit{n}Criteria", "(box c)", "self", "c"))
for n in ("Unary", "Binary", "Not"):
    query_block.append(f"""//@ func (*{n}Criteria).Accept
//@   tags (C01 C02 C20)
//@   implements Criteria.Accept
""")

def visit(vtype, n, extra=""):
    # the normalising visitor runs inside every read: its frame (it writes nothing but its own err field and fresh
    # memory) is also what C09 / C07 need - a read leaves the caller's query and operand lists untouched
    tags = "C01 C02 C07 C09 C20" if vtype == "CriteriaNormalizeVisitor" else "C01 C02 C20"
    return f"""//@ func (*{vtype}).Visit{n}Criteria
//@   tags ({tags})
//@   implements query.CriteriaVisitor.Visit{n}Criteria
{extra}"""

root_block = []
root_block.append("// ---- planner visitors (visit.go): each method implements the visitor contract of /repo/query/contracts_verif.go ----\n")
root_block.append(visit("NotFlattenVisitor", "Unary", """//@   reveal (sat (box c) d)
//@   reveal (psat (box c) d)
"""))
root_block.append(visit("NotFlattenVisitor", "Binary", """//@   reveal (cwf (box c))
//@   reveal (cwf (@ c C1))
//@   reveal (cwf (@ c C2))
//@   reveal (sat (box c) d)
//@   reveal-post (psat result d)
//@   reveal-post (cwf result)
"""))
root_block.append(visit("NotFlattenVisitor", "Not", """//@   reveal (cwf (box c))
//@   reveal (sat (box c) d)
//@   reveal (cwf (@ c C))
//@   reveal (sat (@ c C) d)
//@   reveal-before VisitNotCriteria (cwf (box $c))
//@   reveal-before VisitNotCriteria (sat (box $c) d)
//@   reveal-post (psat result d)
//@   reveal-post (cwf result)
"""))
root_block.append("""// removeNotCriteria: the negation of an ordering comparison is the complementary comparison; every other
// negated leaf is kept (a kept or disjunctive result promises nothing to the range planner)
//@ func (*NotFlattenVisitor).removeNotCriteria
//@   use (criteria ranges planner heapcomps)
//@   tags (C01 C02 C20)
//@   ghost d Doc
//@   requires wf: (and (cwf (box c)) (= (rty (@ c C)) TY_unary))
//@   requires domain: """ + DOM + """
//@   extra allocates (yes)
//@   reveal (cwf (box c))
//@   reveal (sat (box c) d)
//@   reveal (cwf (@ c C))
//@   reveal (sat (@ c C) d)
//@   reveal-post (psat result d)
//@   reveal-post (sat result d)
//@   reveal-post (cwf result)
//@   reveal-post (cwf (@ (cast (rval result) query.BinaryCriteria) C1))
//@   reveal-post (cwf (@ (cast (rval result) query.BinaryCriteria) C2))
//@   ensures[C02,C01,C20] flatten: (and (isCriteria result) (cwf result) (=> (sat (box c) d) (psat result d)))
""")
for n, ex in (("Unary", ""), ("Binary", "//@   reveal (cwf (box c))\n//@   reveal (cwf (@ c C1))\n//@   reveal (cwf (@ c C2))\n"), ("Not", "")):
    root_block.append(visit("IndexSelectVisitor", n, ex))
root_block.append(visit("FieldRangeVisitor", "Unary", """//@   reveal (cwf (box c))
//@   reveal (psat (box c) d)
//@   reveal (sat (box c) d)
"""))
GOODK = ("(=> (mhas mergedMap k) (and (not (= (mget mergedMap k) null)) (<= (rid (mget mergedMap k)) (alloc)) (rangeKx (deref (mget mergedMap k))) (mhas (@ v Fields) k)\n"
         "//@        (=> (and (psat (box c) d) (= (@ c OpType) (bv 0))) (inRange (deref (mget mergedMap k)) (dget d k)))))")
root_block.append(visit("FieldRangeVisitor", "Binary", f"""//@   reveal (cwf (box c))
//@   reveal (cwf (@ c C1))
//@   reveal (cwf (@ c C2))
//@   reveal (psat (box c) d)
//@   reveal (sat (box c) d)
//@   reveal (psat (@ c C1) d)
//@   reveal (psat (@ c C2) d)
//@   extra bind (Intersect v (dget d key))
//@   loop 0 invariant merged: (forall ((k Str)) (! {GOODK} :pattern ((mget mergedMap k))))
//@   loop 1 invariant merged: (forall ((k Str)) (! {GOODK} :pattern ((mget mergedMap k))))
"""))
root_block.append(visit("FieldRangeVisitor", "Not", """//@   reveal (cwf (box c))
//@   reveal (cwf (@ c C))
//@   reveal (psat (box c) d)
"""))
NOFIELD = """// operand lists are finite trees: a list is not one of its own elements
//@   assumes list-not-self-containing: (=> (isSliceC (@ c Value)) (forall ((j (_ BitVec 64))) (! (=> (bvult j (sllen (lval (@ c Value)))) (not (= (select (st C_interfaceBB) (selemaddr (lval (@ c Value)) j)) (@ c Value)))) :pattern ((select (st C_interfaceBB) (selemaddr (lval (@ c Value)) j))))))
// a field operand (Field(name)) is read from each document at evaluation time: it must never go through the
// literal normaliser, neither as the operand nor as an element of an In / Contains list (C16, C01)
//@   assert-before[C16,C01] Normalize no-field-operand-normalised: (and (not (isFieldRef $value))
//@        (=> (and (= $value (@ c Value)) (isSliceC $value) (or (= (@ c OpType) OP_IN) (= (@ c OpType) OP_CONTAINS)))
//@            (forall ((j (_ BitVec 64))) (! (=> (bvult j (sllen (lval $value))) (not (isFieldRef (select (st C_interfaceBB) (selemaddr (lval $value) j))))) :pattern ((select (st C_interfaceBB) (selemaddr (lval $value) j)))))))
"""
for n, ex in (("Unary", "//@   reveal (cshape (box c))\n//@   reveal-post (cshape result)\n" + NOFIELD), ("Binary", "//@   reveal (cshape (box c))\n//@   reveal (cshape (@ c C1))\n//@   reveal (cshape (@ c C2))\n//@   reveal-post (cshape result)\n"), ("Not", "//@   reveal (cshape (box c))\n//@   reveal (cshape (@ c C))\n//@   reveal-post (cshape result)\n")):
    root_block.append(visit("CriteriaNormalizeVisitor", n, ex))
root_block.append("""// the range an ordering comparison against a literal confines the field to (absent = nil)
//@ func unaryCriteriaToRange
//@   use (criteria ranges planner heapcomps)
//@   tags (C01 C02 C20)
//@   ghost d Doc
//@   requires wf: (cwf (box c))
//@   requires domain: """ + DOM + """
//@   extra allocates (yes)
//@   reveal (cwf (box c))
//@   reveal (psat (box c) d)
//@   reveal (sat (box c) d)
//@   ensures[C02,C01] cover: (=> (not (= result null)) (and (> (rid result) (old (alloc))) (rangeKx (deref result))
//@        (=> (psat (box c) d) (inRange (deref result) (dget d (@ c Field))))))
""")

def splice(path, marker, text):
    s = open(path).read()
    a, b = f"// >>> generated {marker}", f"// <<< generated {marker}"
    if a in s:
        i, j = s.index(a), s.index(b) + len(b)
        s = s[:i] + a + "\n" + text + b + s[j:]
    else:
        s = s.rstrip("\n") + "\n\n" + a + "\n" + text + b + "\n"
    open(path, "w").write(s)

splice("/repo/query/contracts_verif.go", "planner contracts", "\n".join(query_block))
splice("/repo/contracts_verif.go", "planner contracts", "\n".join(root_block))
print("ok")
