#!/bin/bash
# Engine self-test: runs govc on the must-pass / must-fail corpus in /verif/enginetest (a tiny module that borrows
# clover's module path). Every obligation whose label starts with "bad" and every safety obligation listed in
# enginetest/expected_fail.txt must be undischarged; every other obligation must be discharged. Exit 0 iff so.
cd "$(dirname "$0")/.." || exit 2
export GOFLAGS=-mod=mod GOPROXY=off GOSUMDB=off GOTOOLCHAIN=local
(cd govc && go build -o ../bin/govc . ) || exit 2
out=out/enginetest; rm -rf $out; mkdir -p $out
bin/govc check -repo "$(pwd)/enginetest" -pkgs . -prop C20 -nobaseline -tier quick -out "$(pwd)/$out" -evidence "$(pwd)/$out/ev.json" > $out/log.txt 2>&1
python3 - "$out/ev.json" enginetest/expected_fail.txt <<'PY'
import json,sys,re
ev=json.load(open(sys.argv[1]))
cov=ev["coverage"]
und=set(cov.get("undischarged") or []) | set(cov.get("unclaimed_undischarged") or [])
und={u.split(" ")[0] for u in und}
exp_extra=[l.strip() for l in open(sys.argv[2]) if l.strip() and not l.startswith("#")]
def expected_bad(name):
    lab=name.split("#",1)[1]
    if re.search(r"(^|[.@])bad-", lab) or ".bad-" in lab: return True
    return any(name==e for e in exp_extra if not e.startswith("ENGINE:"))
unexpected=[u for u in sorted(und) if not expected_bad(u)]
missing=[e for e in exp_extra if e not in und and not e.startswith("ENGINE:")]
# every bad-* label that exists in the corpus must be undischarged: count them from the contract file
labels=set()
cur=None
for line in open("enginetest/contracts_verif.go"):
    m=re.match(r"//@ func (\S+)",line)
    if m: cur=m.group(1)
    m=re.match(r"//@\s+(ensures|loop \d+ invariant|maintains|assert-before \S+|requires)\S*\s+(bad-[A-Za-z0-9-]+):",line)
    if m: labels.add((cur,m.group(2)))
notfailed=[(f,l) for (f,l) in sorted(labels) if not any(("clover."+f+"#") in u and l in u for u in und)]
total=cov["obligations"]
print(f"engine selftest: {total} obligations, {len(und)} undischarged, {len(labels)} must-fail labels, {len(exp_extra)} must-fail safety obligations")
ok=True
for u in unexpected: print("UNEXPECTED-FAIL (must pass):",u); ok=False
for m_ in missing: print("UNEXPECTED-PASS (must fail):",m_); ok=False
for f,l in notfailed: print("UNEXPECTED-PASS (must fail):",f,l); ok=False
exp_eng=[e[len("ENGINE:"):].strip() for e in exp_extra if e.startswith("ENGINE:")]
for ee in (cov.get("engine_errors") or []):
    if not any(x in ee for x in exp_eng): print("UNEXPECTED ENGINE-ERROR:",ee); ok=False
for x in exp_eng:
    if not any(x in ee for ee in (cov.get("engine_errors") or [])): print("MISSING ENGINE-ERROR (must be reported):",x); ok=False
sys.exit(0 if ok else 1)
PY
