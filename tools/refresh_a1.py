#!/usr/bin/env python3
# Refreshes the "functions under contract / obligations" column of DESIGN.md A.1 from the evidence files of the last run.
import json, re
p = '/verif/DESIGN.md'
s = open(p).read()
for i in range(1, 21):
    pid = f"C{i:02d}"
    try:
        c = json.load(open(f'/verif/evidence/{pid}.json'))['coverage']
    except Exception:
        continue
    n, o = c['functions_under_contract'], c['obligations']
    n = len(n) if isinstance(n, list) else n
    s = re.sub(rf"(\n\| {pid} \| )\d+ / \d+", rf"\g<1>{n} / {o}", s, count=1)
open(p, 'w').write(s)
