#!/bin/bash
# Runs the check of each seeded change's property with the change applied to /repo, then reverts it.
# usage: tools/run_seeded.sh [id ...]
cd "$(dirname "$0")/.." || exit 2
ids="$@"; [ -z "$ids" ] && ids=$(ls seeded)
for id in $ids; do
  p=seeded/$id/patch.diff
  if ! git -C /repo apply --check "$(pwd)/$p" 2>/dev/null; then
     if git -C /repo apply --3way --check "$(pwd)/$p" 2>/dev/null; then :; else echo "$id: patch does not apply to the current tree (needs rebase)"; continue; fi
  fi
  git -C /repo apply "$(pwd)/$p" 2>/dev/null || { echo "$id: apply failed"; continue; }
  prop=$(echo "$id" | cut -c1-3)   # seeded/C06b is a second change for property C06
  out=$(bin/govc check -prop "$prop" -tier quick -out "$(pwd)/out/seeded" 2>&1)
  code=$?
  if [ "$prop" = C18 ]; then   # the C18 check also runs the bounded stand-in for Normalize (see ./check)
    bsum=$(tools/bounded_c18.sh quick); bcode=$?
    if [ $bcode -ne 0 ]; then out="$out
VIOLATION property=C18 replay=$(pwd)/out/C18/bounded/log.txt (bounded stand-in: $(grep -h BOUNDED-VIOLATION out/C18/bounded/log.txt | head -1 | sed 's/.*BOUNDED-VIOLATION //' | cut -c1-120))"; code=1; fi
  fi
  git -C /repo apply -R "$(pwd)/$p"
  n=$(echo "$out" | grep -c "^VIOLATION property=$prop")
  if [ $code -eq 1 ] && [ $n -gt 0 ]; then
    echo "$id: CAUGHT ($n): $(echo "$out" | grep '^VIOLATION' | head -3 | sed 's/.*replay\/[^/]*\///; s/ no-failing-input-found/ (nfif)/' | tr '\n' ' ')"
  else
    echo "$id: MISSED (exit $code) $(echo "$out" | tail -1 | cut -c1-120)"
  fi
done
