#!/bin/bash
# Runs every check registered in MANIFEST.json (quick tier by default) and prints one line per property.
cd "$(dirname "$0")/.." || exit 2
tier=${1:-quick}
fail=0
for p in $(python3 -c "import json;print(' '.join(c['property_id'] for c in json.load(open('MANIFEST.json'))['checks']))"); do
  out=$(./check $p $tier 2>&1); code=$?
  echo "$p exit=$code $(echo "$out" | tail -1 | sed 's/govc: property [A-Z0-9]* tier [a-z]*: //')"
  [ $code -ne 0 ] && { fail=1; echo "$out" | grep "^VIOLATION\|^ENGINE\|^SOLVER" | head -5; }
done
exit $fail
