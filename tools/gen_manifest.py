#!/usr/bin/env python3
# Writes /verif/MANIFEST.json. The per-property texts say what the contracts currently decide.
import json, subprocess
TECH = "contract-based deductive verification: requires/ensures/loop invariants/frames on the real functions (comment-only contract files in /repo, build tag verif), weakest-precondition VCs generated from go/ssa by govc, discharged by z3 4.8.12 / z3 5.1.0 / cvc5 1.0.3"
NOTE_COMMON = "Trusted base listed per run in the evidence (trusted_base): store-library behaviour behind the store.Store/Tx/Cursor interface contract, library contracts in prelude/extern.contracts, assumed clauses (ensures-assumed), govc's Go semantics (DESIGN.md section 2), solver soundness. Integers are 64-bit vectors, not idealised."
claims = {
 "C02": ("proof", "Planner building blocks proved for all inputs: Range.IsEmpty is sound for every range the planner can build, Range.Intersect never loses a value contained in both operands, Compare refines the specification order; structural plan contracts (tryToSelectIndex, buildQueryPlan). The cover chain through the criteria visitors (getIndexQueries) and scan exactness are not yet under contract: see DESIGN.md section 12.", "6 C02"),
 "C03": ("proof", "Bulk writes (replaceDocs and its callers) are proved to select first and write afterwards: every Tx.Set/Delete call site proves that no cursor of the transaction is open (the precondition both store libraries need for cursors to be exact), one transaction, errors propagated, writes confined to the collection's key space. That each selected document is updated exactly once is not yet a discharged obligation.", "6 C03"),
 "C04": ("proof", "For every database operation and every helper between it and the store: a store failure at ANY call position is reported (sticky ghost flag storeErr => err != nil), no commit on an error path, exactly one transaction which is closed on every path, all cursors closed; proved per call site for all paths (no enumeration of failure positions). Composite operations (Import, CreateCollectionByQuery) are single-transaction after the fix.", "6 C04"),
 "C05": ("proof", "Code-side premises of crash atomicity: each operation performs all its store effects in one transaction, commits exactly once and last, only on success. Crash instants, fsync and torn writes are NOT explored: they are reduced to the store's commit contract (assumed).", "6 C05"),
 "C06": ("proof", "Index maintenance helpers and index drop are proved to write/delete only keys under the index prefix of their collection and field, inside the operation's transaction. The full representation invariant wf(kv,c) (count = number of documents, one entry per document) is not yet a discharged obligation.", "6 C06"),
 "C07": ("proof", "Code-side premises only: every operation is one store transaction plus thread-local computation; no operation assigns the DB handle's fields or package-level variables (frame obligations), query builders are copy-on-write. Schedules are NOT explored; linearizability and race freedom are those of the store (assumed).", "6 C07"),
 "C08": ("proof", "Query option semantics proved: Skip/Limit/Sort builders (negative skip ignored, default sort = _id ascending, direction normalisation with a quantified loop invariant), fresh copies. Window arithmetic of skipLimitNode and the sort comparator are under protocol-level contracts only so far.", "6 C08"),
 "C09": ("proof", "Read operations are proved read-only (no Set/Delete, no commit, written-key set unchanged) and single-transaction; builders never assign their receiver; ForEach/sort propagate the stop request (sortNode.Finish). Equality of Count/Exists/FindFirst with FindAll is not yet a discharged obligation.", "6 C09"),
 "C10": ("proof", "compareNumbers (all int64/uint64/float64 pairs, bit-precise), type ranking (TypeId against the ranking written out from the property), Compare for nil/number/string/bool/time are proved to refine the specification order. Container comparison and the key-encoding order are assumed (cmpC, OrderedCode).", "6 C10"),
 "C12": ("proof", "Insert path: duplicate check, validation and write happen in one transaction with error propagation; document keys are built from collection and _id (key-space obligations). Uniqueness within a batch and _id immutability under update are not yet discharged obligations.", "6 C12"),
 "C13": ("proof", "Isolation: every key written or deleted by an operation on collection c is proved to lie in c's key space (catalog key or prefix c:<c>;), for every operation, through loop invariants over the written-key ghost set; operations on a missing collection return before any write. Key-space disjointness of different names is a string lemma (not yet discharged in the string theory).", "6 C13"),
 "C14": ("proof", "Index catalog operations: transaction protocol, index drop deletes only keys under the index prefix (collected first, then deleted), DropIndex's swap-remove index arithmetic is in bounds. Exactness of the catalog after create/drop is not yet a discharged obligation.", "6 C14"),
 "C15": ("proof", "Client side only: every use of the store by clover stays inside the one interface contract (all pre obligations of Tx/Cursor calls, in particular no write while a cursor is open), so results do not depend on backend-specific cursor behaviour under mutation. The two adapters are not yet proved against the contract.", "6 C15"),
 "C17": ("proof", "Range.IsEmpty (sound on the property's range domain), Range.Intersect (superset, fresh result), IsNil; scan loops terminate and close their cursor (measure on the cursor contract). Exactness and order of IterateRange/Iterate are not yet discharged.", "6 C17"),
 "C19": ("proof", "Export is read-only (no write, no commit); Import decodes the file before touching the store, creates and fills the collection in one transaction, writes only keys of the new collection's key space, rejects null documents. JSON value typing is outside contract reach (assumed).", "6 C19"),
 "C20": ("proof", "No-panic sweep over every function under contract: each type assertion, nil dereference, index/slice bound, nil map write, nil function or interface call and explicit panic is an obligation proved unreachable under the function's precondition; every loop of those functions has a proved decreasing measure. Functions not yet under contract (criteria evaluation, visitors, reflection-based normalisation) are not covered.", "6 C20"),
}
na = {
 "C01": "contracts so far cover the comparison functions, scans' protocol and plan structure, not yet the set-level statement (filter closure forwards iff sat; scan completeness): claimed only once those obligations exist",
 "C11": "replaceTimes/removeLocalizedTimes are not yet under contract; the msgpack round trip itself is outside contract reach (external library)",
 "C16": "criteria evaluation (Satisfy and the leaf operators) is not yet under contract",
 "C18": "normalisation is driven by reflect over arbitrary Go types, outside the verifier's Go subset; only the dotted-path functions could be brought under contract and are not yet",
}
m = {
 "version": 1,
 "setup_cmd": "cd /verif/govc && GOFLAGS=-mod=mod GOPROXY=off GOSUMDB=off GOTOOLCHAIN=local go build -o ../bin/govc .",
 "hooks": {
  "guard": "verif",
  "enable": "go build tag `verif`: govc loads /repo with -tags=verif, which adds the comment-only contract files */contracts_verif.go (no executable code)",
  "baseline_off_cmd": "cd /repo && GOFLAGS=-mod=mod GOPROXY=off GOSUMDB=off go test -mod=mod -json -vet=off -count=1 -timeout 25m ./...",
  "source_commits": subprocess.run(["git","-C","/repo","log","--format=%h","--grep=^verif hook"],capture_output=True,text=True).stdout.split(),
  "add_only": True,
 },
 "engines": [{"name": "govc", "path": "/verif/govc", "serves_properties": sorted(claims), "kind_free_text": "contract-based deductive verifier for Go written for this task: go/ssa -> weakest-precondition verification conditions (SMT-LIB) per function under contract (callers use callee contracts, never bodies, except small loop-free helpers which are inlined), discharged by z3 4.8.12 / z3 5.1.0 / cvc5 1.0.3; counterexamples replayed on the real code with go test -overlay"}],
 "checks": [],
 "not_applicable": [{"property_id": k, "reason": v} for k, v in sorted(na.items())],
 "notes": "See DESIGN.md. known_findings.json lists repaired defects (fixed:) and open findings; unclaimed.json lists obligations that are generated but not claimed; selftest/ holds the must-fail corpus; seeded/ holds independently written breaking changes.",
}
for k in sorted(claims):
    lvl, text, ref = claims[k]
    m["checks"].append({
      "property_id": k, "quick_cmd": f"./check {k} quick", "thorough_cmd": f"./check {k} thorough",
      "evidence_file": f"/verif/evidence/{k}.json", "replay_cmd_template": "cat {path}", "engine": "govc",
      "level_claimed": {"category": lvl, "text": text, "design_ref": "DESIGN.md section " + ref},
      "level_note": NOTE_COMMON, "technique": TECH})
json.dump(m, open("/verif/MANIFEST.json", "w"), indent=1)
print("claimed", len(claims), "not applicable", len(na))
