#!/usr/bin/env python3
# Generates the protocol-level contract block for db.go / json.go operations (appended to /repo/contracts_verif.go
# between the markers). Kept as a generator so that the common clause sets stay uniform.
import re, sys
CLEAN = "(and (not (st storeErr)) (= (st openTx) 0) (= (st openCur) 0) (not (= (@ db store) vnil)))"
def idxs(sl, tx, coll=None):
    c = f" (= (@ (cast (rval (idx {sl} j)) index.rangeIndex) collection) {coll})" if coll else ""
    return f"""(forall ((j (_ BitVec 64))) (! (=> (bvult j (len {sl}))
//@        (and ((_ is vref) (idx {sl} j)) (= (rty (idx {sl} j)) (tyid *index.rangeIndex)) (not (= (rval (idx {sl} j)) null))
//@             (<= (rid (rval (idx {sl} j))) (alloc))
//@             (= (@ (cast (rval (idx {sl} j)) index.rangeIndex) tx) {tx}){c}))
//@        :pattern ((idx {sl} j))))"""
def keyspace(coll):
    return f"(forall ((k Str)) (! (=> (and (select (st wkeys) k) (not (select (old (st wkeys)) k))) (inKS {coll} k)) :pattern ((select (st wkeys) k))))"

def planok(nd, tx="(st opTx)"):
    q = f"(@ {nd} idxQuery)"
    rq = f"(cast (rval {q}) index.RangeIndexQuery)"
    ri = f"(cast (rval (@ {rq} Idx)) index.rangeIndex)"
    return f"""(=> (not (= {q} vnil))
//@        (and ((_ is vref) {q}) (= (rty {q}) (tyid *index.RangeIndexQuery)) (not (= (rval {q}) null))
//@             ((_ is vref) (@ {rq} Idx)) (= (rty (@ {rq} Idx)) (tyid *index.rangeIndex)) (not (= (rval (@ {rq} Idx)) null))
//@             (= (@ {ri} tx) {tx})
//@             (=> (not (= (@ {rq} Range) null)) (rangeKx (deref (@ {rq} Range))))))"""


def ownwin(err, limit="(old (@ q limit))", guard=None):
    """C03: the selection of the operation ran with the caller's own collection, skip, limit and sort options
    (ghost iterQ = the query the last scan was run with); the criteria may have been replaced by their normal form."""
    g = f"(= {err} vnil)" if not guard else f"(and (= {err} vnil) {guard})"
    return (f"//@   ensures[C03] own-window: (=> {g} (and (= (S_query_Query_collection (st iterQ)) (old (@ q collection))) (= (S_query_Query_skip (st iterQ)) (old (@ q skip)))\n"
            f"//@        (= (S_query_Query_limit (st iterQ)) {limit}) (= (S_query_Query_sortOpts (st iterQ)) (old (@ q sortOpts))) (= (= (S_query_Query_criteria (st iterQ)) vnil) (= (old (@ q criteria)) vnil))))")

out = []
def emit(s): out.append(s.rstrip("\n"))

def api(fn, kind, err="result", coll=None, extra="", one_tx=True, commit=True, nullable=None, use_extra="", mod="ghost* heap*"):
    emit(f"//@ func {fn}")
    emit(f"//@   use (store keys heapcomps {use_extra})")
    if nullable: emit(f"//@   extra nullable ({nullable})")
    emit(f"//@   requires clean: {CLEAN}")
    emit(f"//@   modifies ({mod})")
    if "heap*" not in mod: emit("//@   extra allocates (yes)")
    emit(f"//@   ensures[C04] store-error-reported: (=> (st storeErr) (not (= {err} vnil)))")
    emit("//@   ensures[C04,C20] tx-closed: (and (= (st openTx) 0) (= (st openCur) 0))")
    emit("//@   ensures[C07] handle-unchanged: (= (@ db store) (old (@ db store)))")
    if kind == "write":
        emit(f"//@   ensures[C04,C05] no-commit-on-error: (=> (not (= {err} vnil)) (= (st commits) (old (st commits))))")
        if one_tx:
            emit("//@   ensures[C05,C07] one-tx: (<= (st begins) (+ (old (st begins)) 1))")
            if commit == "or-noop":
                # an operation that found nothing to do may succeed without a commit, provided it wrote nothing
                emit(f"//@   ensures[C05] commit-on-success: (=> (= {err} vnil) (or (= (st commits) (+ (old (st commits)) 1)) (and (= (st commits) (old (st commits))) (= (st nWrites) (old (st nWrites))))))")
            elif commit:
                emit(f"//@   ensures[C05,C19] commit-on-success: (=> (= {err} vnil) (= (st commits) (+ (old (st commits)) 1)))")
        if coll:
            emit(f"//@   ensures[C13,C19] keyspace: {keyspace(coll)}")
    else:
        emit("//@   ensures[C09,C13,C05,C19] read-only: (and (= (st nWrites) (old (st nWrites))) (= (st commits) (old (st commits))) (= (st wkeys) (old (st wkeys))))")
        if one_tx:
            emit("//@   ensures[C05,C07] one-tx: (<= (st begins) (+ (old (st begins)) 1))")
    if extra: emit(extra)
    emit("")

def helper(fn, tx="tx", writable=True, extra="", loops=0, tags="C04 C05 C07 C09 C13 C20", idx_sl=None, use="store keys heapcomps", ks=True, kc=False):
    use += " dockeys"
    emit(f"//@ func {fn}")
    emit(f"//@   use ({use})")
    emit(f"//@   tags ({tags})")
    emit(f"//@   requires ready: ({'txWritable' if writable else 'txReady'} {tx})")
    if idx_sl:
        emit("//@   ghost coll Str")
        emit(f"//@   requires idxs: {idxs(idx_sl, tx, 'coll')}")
        emit(f"//@   ensures[C13,C14] keyspace: {keyspace('coll')}")
    emit("//@   modifies (storeErr kvHas kvVal nWrites wkeys" + (" kcount" if kc else "") + ")")
    emit("//@   ensures proto: (= (protoSnap) (old (protoSnap)))")
    emit("//@   ensures err: (=> (and (st storeErr) (not (old (st storeErr)))) (not (= result vnil)))")
    for i in range(loops):
        emit(f"//@   loop {i} invariant proto: (and (= (protoSnap) (old (protoSnap))) (=> (st storeErr) (old (st storeErr))) (= (st kcount) (old (st kcount))))")
        if idx_sl: emit(f"//@   loop {i} invariant keyspace: {keyspace('coll')}")
        emit(f"//@   loop {i} invariant bounds: (and (bvsle (bvneg (bv 1)) rangeindex) (bvslt rangeindex (bv 1099511627776)))")
        emit(f"//@   loop {i} decreases (bvsub (bv 1099511627776) rangeindex)")
    if extra: emit(extra)
    emit("")

emit("// ---- generated by /verif/tools/gen_db_contracts.py: protocol-level contracts of the database operations ----")
emit("")
# metadata
emit("""//@ func (*DB).getCollectionMeta
//@   use (store keys catalog)
//@   tags (C04 C05 C07 C09 C13 C14 C20)
//@   requires ready: (txReady tx)
//@   modifies (storeErr)
//@   extra allocates (yes)
//@   ensures proto: (= (protoSnap) (old (protoSnap)))
//@   ensures err: (=> (and (st storeErr) (not (old (st storeErr)))) (not (= result1 vnil)))
//@   ensures[C13,C14] missing: (=> (not (select (select (st kvHas) tx) (collKey collection))) (or (= result1 (global clover.ErrCollectionNotExist)) (st storeErr)))
//@   ensures nonnil: (=> (= result1 vnil) (and (not (= result0 null)) (> (rid result0) (old (alloc)))))
//@   ensures[C14,C06,C09] stored: (=> (= result1 vnil) (= (metaView result0) (decMeta (bytesStr (select (select (st kvVal) tx) (collKey collection))))))
// the stored catalog never lists a field twice (createIndex refuses duplicates): assumed of stored data
//@   ensures-assumed stored-meta-unique: (=> (= result1 vnil) (forall ((j (_ BitVec 64)) (k (_ BitVec 64))) (! (=> (and (bvult j (len (@ result0 Indexes))) (bvult k (len (@ result0 Indexes))) (not (= j k)))
//@        (not (= (@ (idx (@ result0 Indexes) j) Field) (@ (idx (@ result0 Indexes) k) Field)))) :pattern ((idx (@ result0 Indexes) j) (idx (@ result0 Indexes) k)))))
// Stored metadata is what clover wrote (index type is always SingleField): assumed, not derivable from the JSON decoder.
//@   ensures-assumed stored-meta-wf: (=> (= result1 vnil) (forall ((j (_ BitVec 64))) (! (=> (bvult j (len (@ result0 Indexes))) (= (@ (idx (@ result0 Indexes) j) Type) (bv 0))) :pattern ((idx (@ result0 Indexes) j)))))
""")
emit(f"""//@ func (*DB).getIndexes
//@   use (store keys)
//@   tags (C04 C05 C07 C09 C13 C14 C20)
//@   requires meta-wf: (forall ((j (_ BitVec 64))) (! (=> (bvult j (len (@ meta Indexes))) (= (@ (idx (@ meta Indexes) j) Type) (bv 0))) :pattern ((idx (@ meta Indexes) j))))
//@   ensures idxs: {idxs('result','tx','collection')}
//@   ensures fresh: (and (not (= (sbase result) null)) (> (rid (sbase result)) (old (alloc))) (= (len result) (len (@ meta Indexes))))
//@   loop 0 invariant bounds: (and (bvsle (bvneg (bv 1)) rangeindex) (bvsle (bvadd rangeindex (bv 1)) (len (rangeslice))) (= (len indexes) (bvadd rangeindex (bv 1))) (= (rangeslice) (old (@ meta Indexes))))
//@   loop 0 invariant fresh: (and (not (= (sbase indexes) null)) (> (rid (sbase indexes)) (old (alloc))))
//@   loop 0 invariant idxs: {idxs('indexes','tx','collection')}
//@   loop 0 decreases (bvsub (len (rangeslice)) rangeindex)
""")
helper("(*DB).addDocToIndexes", loops=1, idx_sl="indexes", use="store keys heapcomps docs", tags="C01 C02 C04 C05 C06 C07 C09 C13 C20", extra="""//@   ensures[C01,C02,C06] entries-added: (=> (= result vnil) (forall ((j (_ BitVec 64))) (! (=> (bvult j (len indexes)) (select (select (st kvHas) tx) (entryOf (rval (idx indexes j)) (docv doc)))) :pattern ((idx indexes j)))))
//@   ensures[C01,C02,C06] only-adds: (forall ((k Str)) (! (=> (and (= result vnil) (select (select (old (st kvHas)) tx) k)) (select (select (st kvHas) tx) k)) :pattern ((select (select (st kvHas) tx) k))))
//@   loop 0 invariant entries: (and (forall ((j (_ BitVec 64))) (! (=> (and (bvult j (len indexes)) (bvsle j rangeindex)) (select (select (st kvHas) tx) (entryOf (rval (idx indexes j)) (docv doc)))) :pattern ((idx indexes j)))) (= (docv doc) (old (docv doc))))
//@   loop 0 invariant only-adds: (forall ((k Str)) (! (=> (select (select (old (st kvHas)) tx) k) (select (select (st kvHas) tx) k)) :pattern ((select (select (st kvHas) tx) k))))
// index maintenance never touches a document key (C06)
//@   ensures[C06,C09] doc-keys-untouched: (=> (= result vnil) (forall ((k Str)) (! (=> (isDocKey k) (and (= (select (select (st kvHas) tx) k) (select (select (old (st kvHas)) tx) k)) (= (select (select (st kvVal) tx) k) (select (select (old (st kvVal)) tx) k)))) :pattern ((select (select (st kvHas) tx) k)) :pattern ((select (select (st kvVal) tx) k)))))
//@   loop 0 invariant doc-keys-untouched: (forall ((k Str)) (! (=> (isDocKey k) (and (= (select (select (st kvHas) tx) k) (select (select (old (st kvHas)) tx) k)) (= (select (select (st kvVal) tx) k) (select (select (old (st kvVal)) tx) k)))) :pattern ((select (select (st kvHas) tx) k)) :pattern ((select (select (st kvVal) tx) k))))""")
helper("(*DB).deleteDocFromIndexes", tx="(st opTx)", loops=1, idx_sl="indexes", use="store keys heapcomps docs", tags="C01 C02 C04 C05 C06 C07 C09 C13 C20", extra="""//@   ensures[C02,C06] entries-removed: (=> (= result vnil) (forall ((j (_ BitVec 64))) (! (=> (bvult j (len indexes)) (not (select (select (st kvHas) (st opTx)) (entryOf (rval (idx indexes j)) (docv doc))))) :pattern ((idx indexes j)))))
//@   ensures[C02,C06] only-removes: (forall ((k Str)) (! (=> (and (= result vnil) (select (select (st kvHas) (st opTx)) k)) (select (select (old (st kvHas)) (st opTx)) k)) :pattern ((select (select (st kvHas) (st opTx)) k))))
//@   loop 0 invariant entries: (and (forall ((j (_ BitVec 64))) (! (=> (and (bvult j (len indexes)) (bvsle j rangeindex)) (not (select (select (st kvHas) (st opTx)) (entryOf (rval (idx indexes j)) (docv doc))))) :pattern ((idx indexes j)))) (= (docv doc) (old (docv doc))))
//@   loop 0 invariant only-removes: (forall ((k Str)) (! (=> (select (select (st kvHas) (st opTx)) k) (select (select (old (st kvHas)) (st opTx)) k)) :pattern ((select (select (st kvHas) (st opTx)) k))))""")
helper("(*DB).updateIndexesOnDocUpdate", idx_sl="indexes", extra="//@   extra nullable (newDoc)")
helper("(*DB).getDocAndDeleteFromIndexes", loops=1, idx_sl="indexes", use="store keys heapcomps docs", tags="C02 C04 C05 C06 C07 C09 C13 C20", extra="""//@   ensures[C06] entries-removed: (=> (and (= result vnil) (select (select (old (st kvHas)) tx) (docKey collection docId))
//@        (not (= (blen (select (select (old (st kvVal)) tx) (docKey collection docId))) (bv 0)))) (forall ((j (_ BitVec 64))) (! (=> (bvult j (len indexes)) (not (select (select (st kvHas) tx) (entryOf (rval (idx indexes j)) (decDoc (bytesStr (select (select (old (st kvVal)) tx) (docKey collection docId)))))))) :pattern ((idx indexes j)))))
//@   ensures[C06] doc-untouched: (=> (= result vnil) (and (= (select (select (st kvHas) tx) (docKey collection docId)) (select (select (old (st kvHas)) tx) (docKey collection docId))) (= (st kvVal) (old (st kvVal)))))
//@   loop 0 invariant entries: (forall ((j (_ BitVec 64))) (! (=> (and (bvult j (len indexes)) (bvsle j rangeindex)) (not (select (select (st kvHas) tx) (entryOf (rval (idx indexes j)) (docv doc))))) :pattern ((idx indexes j))))
//@   loop 0 invariant docv: (and (= (docv doc) (decDoc (bytesStr (select (select (old (st kvVal)) tx) (docKey collection docId))))) (= (st kvVal) (old (st kvVal))))
//@   loop 0 invariant only-removes: (forall ((k Str)) (! (=> (select (select (st kvHas) tx) k) (select (select (old (st kvHas)) tx) k)) :pattern ((select (select (st kvHas) tx) k))))
//@   loop 0 invariant dockey: (= (select (select (st kvHas) tx) (docKey collection docId)) (select (select (old (st kvHas)) tx) (docKey collection docId)))""")
helper("saveDocument", use="store keys heapcomps docs", kc=True, extra="""// a document is only ever stored under the key of its own _id (C12): FindById(c, id) decodes what is under docKey(c, id)
//@   ghost coll Str
//@   requires[C12,C06] key-is-id: (= (bytesStr key) (docKey coll (docIdOf (docv doc))))
// the document-key count grows by one exactly when the key was not there; on success the key holds the (non-empty)
// encoding of the document and no other key changes
//@   ensures[C06,C09] counted: (= (st kcount) (ite (and (= result vnil) (isDocKey (bytesStr key)) (not (select (select (old (st kvHas)) tx) (bytesStr key))))
//@        (store (old (st kcount)) tx (store (select (old (st kcount)) tx) (docCollOf (bytesStr key)) (bvadd (select (select (old (st kcount)) tx) (docCollOf (bytesStr key))) (bv 1))))
//@        (old (st kcount))))
//@   ensures[C06,C09] stored: (=> (= result vnil) (and (= (select (st kvHas) tx) (store (select (old (st kvHas)) tx) (bytesStr key) true))
//@        (not (= (blen (select (select (st kvVal) tx) (bytesStr key))) (bv 0)))
//@        (forall ((k Str)) (! (=> (not (= k (bytesStr key))) (= (select (select (st kvVal) tx) k) (select (select (old (st kvVal)) tx) k))) :pattern ((select (select (st kvVal) tx) k))))))
""" + "//@   ensures[C13,C12] wkey: (forall ((k Str)) (! (=> (and (select (st wkeys) k) (not (select (old (st wkeys)) k))) (= k (bytesStr key))) :pattern ((select (st wkeys) k))))")
emit("""//@ func (*DB).hasIndex
//@   use (store keys)
//@   tags (C04 C05 C07 C09 C13 C14 C20)
//@   requires ready: (txReady tx)
//@   modifies (storeErr)
//@   extra allocates (yes)
//@   ensures proto: (= (protoSnap) (old (protoSnap)))
//@   ensures err: (=> (and (st storeErr) (not (old (st storeErr)))) (not (= result1 vnil)))
""")
emit("""//@ func getDocumentById
//@   use (store keys docs)
//@   tags (C01 C04 C05 C06 C07 C09 C12 C13 C20)
//@   ensures[C01,C06,C09,C12] found: (=> (and (= result1 vnil) (not (= result0 null))) (and (select (select (st kvHas) tx) (docKey collectionName id))
//@        (= (docv result0) (decDoc (bytesStr (select (select (st kvVal) tx) (docKey collectionName id)))))))
//@   ensures[C01,C06,C09,C12] missing: (=> (and (= result1 vnil) (= result0 null)) (or (not (select (select (st kvHas) tx) (docKey collectionName id)))
//@        (= (blen (select (select (st kvVal) tx) (docKey collectionName id))) (bv 0))))
//@   requires ready: (txReady tx)
//@   modifies (storeErr)
//@   extra allocates (yes)
//@   ensures proto: (= (protoSnap) (old (protoSnap)))
//@   ensures err: (=> (and (st storeErr) (not (old (st storeErr)))) (and (not (= result1 vnil)) (not (= result1 (global internal.ErrStopIteration)))))
""")
# index object methods
main_out = out
out = []
for m in ["Add", "Remove"]:
    emit(f"""//@ func (*rangeIndex).{m}
//@   use (store keys values docs dockeys)
//@   tags (C04 C05 C06 C13 C14 C20)
//@   extra nullable ({'v' if m=='Add' else 'value'})
//@   requires ready: (txWritable (@ idx tx))
//@   requires canon: (canon {'v' if m=='Add' else 'value'})
//@   modifies (storeErr kvHas kvVal nWrites wkeys)
//@   ensures proto: (= (protoSnap) (old (protoSnap)))
//@   ensures err: (=> (and (st storeErr) (not (old (st storeErr)))) (not (= result vnil)))
//@   ensures[C13,C14] keyspace: (forall ((k Str)) (! (=> (and (select (st wkeys) k) (not (select (old (st wkeys)) k))) (hasPrefix k (idxKS (old (@ idx collection)) (old (@ idx field))))) :pattern ((select (st wkeys) k))))
//@   ensures[C01,C02,C06] entry: (=> (= result vnil) (= (st kvHas) (store (old (st kvHas)) (@ idx tx) (store (select (old (st kvHas)) (@ idx tx)) (entryKey (@ idx collection) (@ idx field) {'v' if m=='Add' else 'value'} docId) {'true' if m=='Add' else 'false'}))))
//@   ensures[C01,C02,C06] values: (=> (= result vnil) {'(= (st kvVal) (store (old (st kvVal)) (@ idx tx) (store (select (old (st kvVal)) (@ idx tx)) (entryKey (@ idx collection) (@ idx field) v docId) bnil)))' if m=='Add' else '(= (st kvVal) (old (st kvVal)))'})
//@   ensures[C01,C02,C06] entry-only: (forall ((k Str)) (! (=> (and (= result vnil) (not (= k (entryKey (@ idx collection) (@ idx field) {'v' if m=='Add' else 'value'} docId)))) (= (select (select (st kvHas) (@ idx tx)) k) (select (select (old (st kvHas)) (@ idx tx)) k))) :pattern ((select (select (st kvHas) (@ idx tx)) k))))
""")
open("/tmp/gen_index.txt","w").write("\n".join(out)+"\n")
out = main_out

emit(f"""// The planner's choice of index ranges: every range query it returns covers the criteria, i.e. a document d
// that satisfies q's criteria has its value of the indexed field (absent = nil) inside the range (C02, C01).
// d is an arbitrary document (ghost parameter); criteria are normalised (cwf) by normalizeCriteria.
//@ func getIndexQueries
//@   use (store ranges criteria planner heapcomps)
//@   tags (C01 C02 C20)
//@   ghost d Doc
//@   extra allocates (yes)
//@   requires idxs: {idxs('indexes','(st opTx)')}
//@   requires norm: (=> (not (= (@ q criteria) vnil)) (cwf (@ q criteria)))
//@   requires domain: (forall ((f Str)) (! (kx (dget d f)) :pattern ((dget d f))))
//@   ensures[C01,C02,C04,C08,C09,C20] each: (forall ((j (_ BitVec 64))) (! (=> (bvult j (len result))
//@        (and ((_ is vref) (idx result j)) (= (rty (idx result j)) (tyid *index.RangeIndexQuery)) (not (= (rval (idx result j)) null))
//@             (> (rid (rval (idx result j))) (old (alloc)))
//@             ((_ is vref) (@ (cast (rval (idx result j)) index.RangeIndexQuery) Idx))
//@             (= (rty (@ (cast (rval (idx result j)) index.RangeIndexQuery) Idx)) (tyid *index.rangeIndex))
//@             (not (= (rval (@ (cast (rval (idx result j)) index.RangeIndexQuery) Idx)) null))
//@             (= (@ (cast (rval (@ (cast (rval (idx result j)) index.RangeIndexQuery) Idx)) index.rangeIndex) tx) (st opTx))
//@             (not (= (@ (cast (rval (idx result j)) index.RangeIndexQuery) Range) null))
//@             (rangeKx (deref (@ (cast (rval (idx result j)) index.RangeIndexQuery) Range)))))
//@        :pattern ((idx result j))))
//@   ensures[C01,C02] cover: (forall ((j (_ BitVec 64))) (! (=> (and (bvult j (len result)) (sat (old (@ q criteria)) d))
//@        (inRange (deref (@ (cast (rval (idx result j)) index.RangeIndexQuery) Range)) (dget d (@ (cast (rval (@ (cast (rval (idx result j)) index.RangeIndexQuery) Idx)) index.rangeIndex) field)))) :pattern ((idx result j))))
//@   loop 0 invariant info: (and (not (= info null)) (> (rid info) (old (alloc)))
//@        (forall ((k Str)) (! (=> (mhas info k) (and (not (= (mget info k) null)) (<= (rid (mget info k)) (alloc)) (= (@ (mget info k) Field) k)
//@             (exists ((i (_ BitVec 64))) (! (and (bvult i (len indexes)) (= (@ (cast (rval (idx indexes i)) index.rangeIndex) field) k)) :pattern ((idx indexes i)))))) :pattern ((mget info k)))))
//@   loop 1 invariant imap: (and (not (= indexesMap null)) (> (rid indexesMap) (old (alloc)))
//@        (forall ((k Str)) (! (=> (mhas indexesMap k) (and (and ((_ is vref) (mget indexesMap k)) (= (rty (mget indexesMap k)) (tyid *index.rangeIndex)) (not (= (rval (mget indexesMap k)) null)) (= (@ (cast (rval (mget indexesMap k)) index.rangeIndex) tx) (st opTx))) (= (@ (cast (rval (mget indexesMap k)) index.rangeIndex) field) k))) :pattern ((mget indexesMap k))))
//@        (forall ((i (_ BitVec 64))) (! (=> (and (bvult i (len indexes)) (bvsle i rangeindex)) (mhas indexesMap (@ (cast (rval (idx indexes i)) index.rangeIndex) field))) :pattern ((idx indexes i)))))
//@   loop 2 invariant each: (forall ((j (_ BitVec 64))) (! (=> (bvult j (len queries))
//@        (and ((_ is vref) (idx queries j)) (= (rty (idx queries j)) (tyid *index.RangeIndexQuery)) (not (= (rval (idx queries j)) null))
//@             (> (rid (rval (idx queries j))) (old (alloc)))
//@             ((_ is vref) (@ (cast (rval (idx queries j)) index.RangeIndexQuery) Idx))
//@             (= (rty (@ (cast (rval (idx queries j)) index.RangeIndexQuery) Idx)) (tyid *index.rangeIndex))
//@             (not (= (rval (@ (cast (rval (idx queries j)) index.RangeIndexQuery) Idx)) null))
//@             (= (@ (cast (rval (@ (cast (rval (idx queries j)) index.RangeIndexQuery) Idx)) index.rangeIndex) tx) (st opTx))
//@             (not (= (@ (cast (rval (idx queries j)) index.RangeIndexQuery) Range) null))
//@             (rangeKx (deref (@ (cast (rval (idx queries j)) index.RangeIndexQuery) Range)))
//@             (=> (sat (old (@ q criteria)) d) (inRange (deref (@ (cast (rval (idx queries j)) index.RangeIndexQuery) Range)) (dget d (@ (cast (rval (@ (cast (rval (idx queries j)) index.RangeIndexQuery) Idx)) index.rangeIndex) field))))))
//@        :pattern ((idx queries j))))

//@ func tryToSelectIndex
//@   use (store ranges criteria planner)
//@   tags (C01 C02 C04 C08 C09 C14 C20)
//@   ghost d Doc
//@   requires idxs: {idxs('indexes','(st opTx)')}
//@   requires[C02,C01,C20] norm: (=> (not (= (@ q criteria) vnil)) (cwf (@ q criteria)))
//@   requires domain: (forall ((f Str)) (! (kx (dget d f)) :pattern ((dget d f))))
// the chosen index range covers the criteria: a satisfying document's value of the indexed field lies in it
//@   ensures[C02,C01] cover: (=> (not (= result0 null)) (=> (and (not (= (@ result0 idxQuery) vnil)) (not (= (@ (cast (rval (@ result0 idxQuery)) index.RangeIndexQuery) Range) null)) (sat (old (@ q criteria)) d))
//@        (inRange (deref (@ (cast (rval (@ result0 idxQuery)) index.RangeIndexQuery) Range)) (dget d (@ (cast (rval (@ (cast (rval (@ result0 idxQuery)) index.RangeIndexQuery) Idx)) index.rangeIndex) field)))))
//@   ensures plan: (=> (not (= result0 null)) (and (> (rid result0) (old (alloc))) (= (@ result0 filter) (old (@ q criteria))) (= (@ result0 collection) (old (@ q collection)))
//@        (= (@ (@ result0 planNodeBase) next) vnil) {planok('result0')}))
//@   ensures none: (=> (= result0 null) (not result1))
// the in-memory sort may be skipped only when there is exactly one sort option and the scan runs over the index on that field, in that direction
//@   ensures[C08,C02,C14] sorted: (=> result1 (and (= (len (old (@ q sortOpts))) (bv 1))
//@        (not (= (@ result0 idxQuery) vnil))
//@        (= (@ (cast (rval (@ (cast (rval (@ result0 idxQuery)) index.RangeIndexQuery) Idx)) index.rangeIndex) field) (old (@ (idx (@ q sortOpts) (bv 0)) Field)))
//@        (= (@ (cast (rval (@ result0 idxQuery)) index.RangeIndexQuery) Reverse) (bvslt (old (@ (idx (@ q sortOpts) (bv 0)) Direction)) (bv 0)))))

//@ func buildQueryPlan
//@   use (store ranges criteria planner)
//@   tags (C01 C02 C04 C08 C09 C20)
//@   ghost d Doc
//@   requires idxs: {idxs('indexes','(st opTx)')}
//@   requires[C02,C01,C20] norm: (=> (not (= (@ q criteria) vnil)) (cwf (@ q criteria)))
//@   requires domain: (forall ((f Str)) (! (kx (dget d f)) :pattern ((dget d f))))
//@   ensures[C02,C01] cover: (let ((nd (cast (rval result) clover.iterNode))) (=> (and (not (= (@ nd idxQuery) vnil)) (not (= (@ (cast (rval (@ nd idxQuery)) index.RangeIndexQuery) Range) null)) (sat (old (@ q criteria)) d))
//@        (inRange (deref (@ (cast (rval (@ nd idxQuery)) index.RangeIndexQuery) Range)) (dget d (@ (cast (rval (@ (cast (rval (@ nd idxQuery)) index.RangeIndexQuery) Idx)) index.rangeIndex) field)))))
//@   ensures plan: (and ((_ is vref) result) (= (rty result) (tyid *clover.iterNode)) (not (= (rval result) null))
//@        (let ((nd (cast (rval result) clover.iterNode))) {planok('nd')}))
""")

# API
api("(*DB).DropCollection", "write", coll="name")
api("(*DB).Insert", "write", coll="collectionName", extra="//@   requires docs: (forall ((j (_ BitVec 64))) (! (=> (bvult j (len docs)) (not (= (idx docs j) null))) :pattern ((idx docs j))))")
api("(*DB).createCollectionWithDocs", "write", coll="name", extra="//@   requires docs: (forall ((j (_ BitVec 64))) (! (=> (bvult j (len docs)) (not (= (idx docs j) null))) :pattern ((idx docs j))))")
emit("""// C12: a fresh id is assigned only to a document that has no _id or the empty string; any other supplied _id
// (well-formed or not, string or not) is left for validation to judge
//@ func assignObjectIds
//@   use (store heapcomps paths values)
//@   tags (C04 C12 C20)
//@   requires docs: (forall ((j (_ BitVec 64))) (! (=> (bvult j (len docs)) (not (= (idx docs j) null))) :pattern ((idx docs j))))
//@   modifies (docheap*)
//@   extra allocates (yes)
//@   assert-before[C12] Document.Set only-when-missing: (or (not (hasFrom (@ doc fields) (lit "_id") (bv 0))) (= (getFrom (@ doc fields) (lit "_id") (bv 0)) (vstr TY_string sempty)))

//@ func (*DB).insert
//@   use (store keys heapcomps dockeys)
//@   tags (C04 C05 C06 C07 C12 C13 C20)
//@   extra bind (addDocToIndexes coll collectionName)
//@   extra bind (saveDocument coll collectionName)
//@   requires ready: (txWritable tx)
// collection names hold no ';' (domain of the properties); stored documents have non-empty values (what saveDocument writes)
//@   assumes names: (noSemi collectionName)
//@   assumes stored-docs-nonempty: (forall ((k Str)) (! (=> (and (select (select (st kvHas) tx) k) (isDocKey k)) (not (= (blen (select (select (st kvVal) tx) k)) (bv 0)))) :pattern ((select (select (st kvHas) tx) k))))
// the stored counter moves with the document keys (C06, C09): when the metadata is written back, Size has grown by
// the number of documents inserted, and so has the number of document keys of the collection
//@   snapshot loaded after getCollectionMeta
//@   assert-before[C06,C09] Tx.Set size-accounts: (and (= (@ meta Size) (bvadd (at loaded (@ meta Size)) (len docs)))
//@        (= (select (select (st kcount) tx) collectionName) (bvadd (select (select (at loaded (st kcount)) tx) collectionName) (len docs))))
//@   requires docs: (forall ((j (_ BitVec 64))) (! (=> (bvult j (len docs)) (not (= (idx docs j) null))) :pattern ((idx docs j))))
//@   modifies (storeErr kvHas kvVal nWrites wkeys kcount docheap*)
//@   extra allocates (yes)
//@   ensures proto: (= (protoSnap) (old (protoSnap)))
//@   ensures err: (=> (and (st storeErr) (not (old (st storeErr)))) (not (= result vnil)))
//@   ensures[C13,C19] keyspace: """ + keyspace("collectionName") + """
//@   loop 0 invariant proto: (and (= (protoSnap) (old (protoSnap))) (=> (st storeErr) (old (st storeErr))))
//@   loop 0 invariant counted: (and (= (select (select (st kcount) tx) collectionName) (bvadd (select (select (at loaded (st kcount)) tx) collectionName) (bvadd rangeindex (bv 1))))
//@        (forall ((k Str)) (! (=> (and (select (select (st kvHas) tx) k) (isDocKey k)) (not (= (blen (select (select (st kvVal) tx) k)) (bv 0)))) :pattern ((select (select (st kvHas) tx) k))))
//@        (= (@ meta Size) (at loaded (@ meta Size))) (bvsle (bvadd rangeindex (bv 1)) (len docs)))
//@   loop 0 invariant keyspace: """ + keyspace("collectionName") + """
""")
api("(*DB).DeleteById", "write", coll="collection", use_extra="docs", commit="or-noop", extra="""//@   extra bind (getDocAndDeleteFromIndexes coll collection)
// before the document key is deleted, the index entries of the stored document are gone
//@   assert-before[C06] Tx.Delete entries-first: (=> (and (select (select (st kvHas) tx) (docKey collection id)) (not (= (blen (select (select (st kvVal) tx) (docKey collection id))) (bv 0))))
//@        (forall ((j (_ BitVec 64))) (! (=> (bvult j (len indexes)) (not (select (select (st kvHas) tx) (entryOf (rval (idx indexes j)) (decDoc (bytesStr (select (select (st kvVal) tx) (docKey collection id)))))))) :pattern ((idx indexes j)))))
// the stored counter moves with the document keys: it drops by one exactly when a document was there to delete
//@   snapshot loaded after getCollectionMeta
//@   assert-before[C06,C09] Tx.Set size-accounts: (= (@ meta Size) (ite (select (select (at loaded (st kvHas)) tx) (docKey collection id)) (bvsub (at loaded (@ meta Size)) (bv 1)) (at loaded (@ meta Size))))""")
api("(*DB).UpdateById", "write", coll="collectionName", extra="//@   tags (C12 C06)\n//@   extra bind (updateIndexesOnDocUpdate coll collectionName)\n//@   extra bind (saveDocument coll collectionName)")
api("(*DB).UpdateFunc", "write", nullable=None, extra=ownwin("result"))
api("(*DB).Delete", "write", extra=ownwin("result"))
api("(*DB).Update", "write", extra=ownwin("result"))
api("(*DB).createIndex", "write", coll="collection", extra="""//@   requires single-field: (= indexType (bv 0))
// the catalog written back is the previous one plus the new field, which was not listed before (C14)
//@   snapshot loaded after getCollectionMeta
//@   assert-before[C14] Tx.Set appended: (and (= (len (@ meta Indexes)) (bvadd (len (at loaded (@ meta Indexes))) (bv 1))) (= (@ (idx (@ meta Indexes) (len (at loaded (@ meta Indexes)))) Field) field)
//@        (forall ((k (_ BitVec 64))) (! (=> (bvult k (len (at loaded (@ meta Indexes)))) (and (= (@ (idx (@ meta Indexes) k) Field) (at loaded (@ (idx (@ meta Indexes) k) Field))) (not (= (at loaded (@ (idx (@ meta Indexes) k) Field)) field)))) :pattern ((at loaded (@ (idx (@ meta Indexes) k) Field))))))
//@   loop 0 invariant not-listed: (and (= (@ meta Indexes) (at loaded (@ meta Indexes))) (= (st F_index_Info_Field) (at loaded (st F_index_Info_Field)))
//@        (forall ((k (_ BitVec 64))) (! (=> (and (bvsle (bv 0) k) (bvslt k i)) (not (= (@ (idx (@ meta Indexes) k) Field) field))) :pattern ((@ (idx (@ meta Indexes) k) Field)))))
//@   loop 0 invariant proto: (and (= (st txState) (store (old (st txState)) tx TX_OPEN)) (= (st opTx) tx) (= (st openTx) 1) (= (st openCur) 0) (= (select (st txCursors) tx) 0)
//@        (select (st txUpdate) tx) (= (st commits) (old (st commits))) (= (st begins) (+ (old (st begins)) 1)) (not (st storeErr)) (= (@ db store) (old (@ db store))) (= (st wkeys) (old (st wkeys))))
//@   loop 0 decreases (bvsub LENMAX i)
//@   loop 0 invariant bounds: (and (bvsle (bv 0) i) (bvsle i LENMAX))
//@   loop 1 invariant proto: (and (= (st txState) (store (old (st txState)) tx TX_OPEN)) (= (st opTx) tx) (= (st openTx) 1) (= (st openCur) 0) (= (select (st txCursors) tx) 0)
//@        (select (st txUpdate) tx) (= (st commits) (old (st commits))) (= (st begins) (+ (old (st begins)) 1)) (not (st storeErr)) (= (@ db store) (old (@ db store))))
//@   loop 1 invariant keyspace: """ + keyspace("collection"))
api("(*DB).CreateIndex", "write", coll="collection")
api("(*DB).DropIndex", "write", coll="collection", use_extra="catalog", extra="""// The catalog written back lists exactly the previous indexes minus the dropped field (C14): stated on the
// metadata object at the moment it is saved, against its state when it was loaded.
//@   snapshot loaded after getCollectionMeta
//@   assert-before[C14] Tx.Set one-less: (= (len (@ meta Indexes)) (bvsub (len (at loaded (@ meta Indexes))) (bv 1)))
//@   assert-before[C14] Tx.Set others-survive: (forall ((k (_ BitVec 64))) (=> (and (bvult k (len (at loaded (@ meta Indexes)))) (not (= (at loaded (@ (idx (@ meta Indexes) k) Field)) field)))
//@        (and (hint (@ (idx (@ meta Indexes) (bvsub k (bv 1))) Field)) (hint (@ (idx (@ meta Indexes) (bvsub j (bv 1))) Field))
//@             (exists ((k2 (_ BitVec 64))) (and (bvult k2 (len (@ meta Indexes))) (= (@ (idx (@ meta Indexes) k2) Field) (at loaded (@ (idx (@ meta Indexes) k) Field))))))))
//@   assert-before[C14] Tx.Set nothing-else: (forall ((k2 (_ BitVec 64))) (=> (bvult k2 (len (@ meta Indexes)))
//@        (and (hint (at loaded (@ (idx (@ meta Indexes) (bvadd k2 (bv 1))) Field))) (hint (at loaded (@ (idx (@ meta Indexes) (bv 0)) Field)))
//@             (not (= (@ (idx (@ meta Indexes) k2) Field) field))
//@             (exists ((k (_ BitVec 64))) (and (bvult k (len (at loaded (@ meta Indexes)))) (= (at loaded (@ (idx (@ meta Indexes) k) Field)) (@ (idx (@ meta Indexes) k2) Field)))))))
//@   loop 0 invariant proto: (and (= (st txState) (store (old (st txState)) txn TX_OPEN)) (= (st opTx) txn) (= (st openTx) 1) (= (st openCur) 0) (= (select (st txCursors) txn) 0)
//@        (select (st txUpdate) txn) (= (st commits) (old (st commits))) (= (st begins) (+ (old (st begins)) 1)) (not (st storeErr)) (= (@ db store) (old (@ db store))) (= (st wkeys) (old (st wkeys))))
//@   loop 0 invariant bounds: (and (bvsle (bv 0) i) (bvsle i LENMAX) (bvsle (bvneg (bv 1)) j) (bvslt j i) (=> (bvsle (bv 0) j) (bvult j (len (@ meta Indexes)))))
//@   loop 0 invariant meta: (and (not (= meta null)) (> (rid meta) (old (alloc))))
//@   loop 0 invariant found: (=> (bvsle (bv 0) j) (= (@ (idx (@ meta Indexes) j) Field) field))
//@   loop 0 invariant loaded: (and (= (@ meta Indexes) (at loaded (@ meta Indexes))) (= (st F_index_Info_Field) (at loaded (st F_index_Info_Field))))
//@   loop 0 decreases (bvsub LENMAX i)""")
api("(*DB).FindAll", "read", err="result1", extra=ownwin("result1")+"\n//@   ensures[C09,C20] nonnil: (forall ((j (_ BitVec 64))) (! (=> (bvult j (len result0)) (not (= (idx result0 j) null))) :pattern ((idx result0 j))))")
api("(*DB).IterateDocs", "read", extra=ownwin("result"))
api("(*DB).ForEach", "read", extra=ownwin("result"))
api("(*DB).Count", "read", err="result1", one_tx=False, extra=ownwin("result1", guard="(not (= (old (@ q criteria)) vnil))"))
api("(*DB).countCollection", "read", err="result1", use_extra="sorting catalog", mod="ghost*", extra="//@   ensures[C08,C09] window: (=> (= result1 vnil) (= result0 (winLen (catSize (decMeta (bytesStr (select (old (st cmVal)) (collKey (old (@ q collection))))))) (old (@ q skip)) (old (@ q limit)))))")
api("(*DB).getCollectionSize", "read", err="result1", use_extra="catalog", mod="ghost*", extra="//@   ensures[C08,C09] committed-size: (=> (= result1 vnil) (= result0 (catSize (decMeta (bytesStr (select (old (st cmVal)) (collKey collection)))))))")
api("(*DB).FindById", "read", err="result1")
api("(*DB).FindFirst", "read", err="result1", extra=ownwin("result1", limit="(bv 1)"))
api("(*DB).Exists", "read", err="result1", extra=ownwin("result1", limit="(bv 1)"))
api("(*DB).ListCollections", "read", err="result1")
api("(*DB).HasIndex", "read", err="result1")
api("(*DB).ListIndexes", "read", err="result1")
api("(*DB).ExportCollection", "read", one_tx=False)
api("(*DB).ReplaceById", "write", coll="collection")
api("(*DB).InsertOne", "write", err="result1", coll="collectionName")
api("(*DB).Save", "write", coll="collectionName", one_tx=False, extra="//@   requires doc: (and ((_ is vref) data) (= (rty data) TY_document) (not (= (rval data) null)))")
api("(*DB).ImportCollection", "write", coll="collectionName", extra="""//@   loop 0 invariant nonnil: (and (forall ((j (_ BitVec 64))) (! (=> (bvult j (len docs)) (not (= (idx docs j) null))) :pattern ((idx docs j))))
//@        (= (protoSnap) (old (protoSnap))) (= (st storeErr) (old (st storeErr))) (= (st wkeys) (old (st wkeys))) (= (@ db store) (old (@ db store))) (= (st nWrites) (old (st nWrites))))""")
api("(*DB).CreateCollectionByQuery", "write", coll="name", one_tx=False)

# helpers that take tx
emit("""//@ func (*DB).iterateDocs@consumer
//@   implements @docConsumer

//@ func (*DB).iterateDocs
//@   use (store keys heapcomps ranges criteria planner)
//@   tags (C01 C03 C04 C05 C07 C09 C13 C20)
// ghost iterQ records which query a scan was run with (C03: a bulk write selects with the caller's own query)
//@   exit-update iterQ - (old (deref q))
//@   requires[C02,C01,C20] norm: (=> (not (= (@ q criteria) vnil)) (cwf (@ q criteria)))
//@   requires ready: (and (txReady tx) (=> (select (st txUpdate) tx) (= (select (st txCursors) tx) 0)) (not (select (st txStopped) tx)))
//@   modifies (seen cuts storeErr iterQ ndCalls txStopped txCursors openCur curOpen curTx curFwd curRem curPos docheap* C_int C_LJPgithub.com.ostafen.clover.v2.document.Document C_LJstring F_clover_skipLimitNode_skipped F_clover_skipLimitNode_consumed F_clover_sortNode_docs C_Pgithub.com.ostafen.clover.v2.document.Document)
//@   extra allocates (yes)
//@   ensures proto: (= (protoSnap) (old (protoSnap)))
//@   ensures err: (=> (and (st storeErr) (not (old (st storeErr)))) (not (= result vnil)))
//@   ensures[C09,C13] read-only: (= (st nWrites) (old (st nWrites)))

//@ func (*DB).IterateDocs@consumer
//@   implements @docConsumer

//@ func (*DB).replaceDocs@updater
//@   implements @updaterCallback

//@ func (*DB).replaceDocs$1
//@   tags (C03 C04 C06 C09 C15 C20)
//@   implements @docConsumer
//@   maintains nonnil: (forall ((j (_ BitVec 64))) (! (=> (bvult j (len docs)) (not (= (idx docs j) null))) :pattern ((idx docs j))))

//@ func (*DB).replaceDocs
//@   use (store keys heapcomps criteria planner)
//@   tags (C03 C04 C05 C06 C07 C12 C13 C15 C20)
//@   extra bind (updateIndexesOnDocUpdate coll (old (@ q collection)))
//@   extra bind (saveDocument coll (old (@ q collection)))
//@   requires[C02,C01,C20] norm: (=> (not (= (@ q criteria) vnil)) (cwf (@ q criteria)))
//@   requires ready: (and (txWritable tx) (not (select (st txStopped) tx)))
//@   modifies (seen cuts storeErr iterQ ndCalls txStopped kvHas kvVal kcount nWrites wkeys txCursors openCur curOpen curTx curFwd curRem curPos docheap* C_int C_LJPgithub.com.ostafen.clover.v2.document.Document C_LJstring F_clover_skipLimitNode_skipped F_clover_skipLimitNode_consumed F_clover_sortNode_docs C_Pgithub.com.ostafen.clover.v2.document.Document F_clover_collectionMetadata_Size)
//@   extra allocates (yes)
//@   ensures proto: (= (protoSnap) (old (protoSnap)))
//@   ensures err: (=> (and (st storeErr) (not (old (st storeErr)))) (not (= result vnil)))
//@   ensures[C03] same-query: (=> (= result vnil) (= (st iterQ) (old (deref q))))
//@   ensures[C13] keyspace: """ + keyspace("(old (@ q collection))") + """
//@   loop 0 invariant same-query: (= (st iterQ) (old (deref q)))
//@   loop 0 invariant keyspace: """ + keyspace("(old (@ q collection))") + """
//@   loop 0 invariant proto: (and (= (protoSnap) (old (protoSnap))) (=> (st storeErr) (old (st storeErr))))
//@   loop 0 invariant bounds: (and (bvsle (bvneg (bv 1)) rangeindex) (bvslt rangeindex (bv 1099511627776)))
//@   loop 0 decreases (bvsub (bv 1099511627776) rangeindex)

//@ func (*DB).deleteAll$1
//@   implements @updaterCallback
//@ func (*DB).Delete$1
//@   implements @updaterCallback
//@ func (*DB).Update$1
//@   implements @updaterCallback
//@ func (*DB).ReplaceById$1
//@   implements @updaterCallback
//@ func (*DB).UpdateFunc@updateFunc
//@   implements @updaterCallback
//@ func (*DB).UpdateById@updater
//@   implements @updaterCallback
//@   ensures nonnil: (not (= result null))

//@ func (*DB).FindAll$1
//@   tags (C01 C04 C09 C20)
//@   implements @docConsumer
//@   maintains nonnil: (forall ((j (_ BitVec 64))) (! (=> (bvult j (len docs)) (not (= (idx docs j) null))) :pattern ((idx docs j))))
//@ func (*DB).Count$1
//@   tags (C04 C09 C20)
//@   implements @docConsumer
//@ func (*DB).ForEach$1
//@   tags (C04 C09 C20)
//@   implements @docConsumer
//@   requires consumer: (not (= consumer fnil))
//@ func (*DB).createIndex$1
//@   tags (C04 C06 C14 C20)
//@   implements @docConsumer
//@   maintains nonnil: (forall ((j (_ BitVec 64))) (! (=> (bvult j (len docs)) (not (= (idx docs j) null))) :pattern ((idx docs j))))
// C13 (the catalog listing is exact): a handed-over metadata key "coll:"+name appends exactly that name and leaves
// the names listed so far alone; with iteratePrefix handing over every stored key under "coll:" exactly once
// (its `complete` / `at-most-once` clauses) the list is the set of stored collections.
//@ func (*DB).ListCollections$1
//@   use (store keys heapcomps strings)
//@   tags (C04 C13 C20)
//@   implements @itemCallback
//@   requires prefix: (= (bytesStr prefix) (lit "coll:"))
//@   ensures[C13] named: (and (= (len collections) (bvadd (old (len collections)) (bv 1)))
//@        (=> (hasPrefix (bytesStr (@ item Key)) (lit "coll:")) (= (collKey (idx collections (old (len collections)))) (bytesStr (@ item Key)))))
//@   ensures[C13] keeps: (forall ((j (_ BitVec 64))) (! (=> (bvult j (old (len collections))) (= (idx collections j) (old (idx collections j)))) :pattern ((idx collections j))))

// ForEach's consumer is user code (A13): returns whether to continue.
//@ func (*DB).ForEach@consumer
//@   use (store heapcomps)
//@   requires not-stopped: (not (select (st txStopped) (st opTx)))
//@   modifies (docheap* txStopped)
//@   extra allocates (yes)
//@   ensures[C09] stop: (= (st txStopped) (store (old (st txStopped)) (st opTx) (not result)))
""")
txt = "\n".join(out) + "\n"
p = "/repo/contracts_verif.go"
s = open(p).read()
B, E = "// >>> generated protocol contracts\n", "// <<< generated protocol contracts\n"
if B in s:
    s = s[:s.index(B)] + s[s.index(E)+len(E):]
# drop the hand-written early versions superseded by the generated ones
s = re.sub(r"\n// ---- bulk writes ----.*", "\n", s, flags=re.S)
s = s.rstrip("\n") + "\n\n" + B + txt + E
open(p, "w").write(s)
# index methods
p = "/repo/index/contracts_verif.go"
s = open(p).read()
if B in s:
    s = s[:s.index(B)] + s[s.index(E)+len(E):]
s = s.rstrip("\n") + "\n\n" + B + open("/tmp/gen_index.txt").read() + E
open(p, "w").write(s)
print("generated", len(out), "lines")
