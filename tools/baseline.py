#!/usr/bin/env python3
# Runs the repository's test suite (guard off) and compares with the 84 stable-pass tests of BASELINE.json.
import json, subprocess, sys, os
env = dict(os.environ, GOFLAGS="-mod=mod", GOPROXY="off", GOSUMDB="off", GOTOOLCHAIN="local")
base = json.load(open("/root/.vp/BASELINE.json"))
want = set(base["stable_pass"])
out = subprocess.run(["go", "test", "-mod=mod", "-json", "-vet=off", "-count=1", "-timeout", "25m", "./..."], cwd="/repo", env=env, capture_output=True, text=True).stdout
passed = set()
for line in out.splitlines():
    try:
        e = json.loads(line)
    except Exception:
        continue
    if e.get("Action") == "pass" and e.get("Test"):
        passed.add(e["Package"] + "::" + e["Test"])
missing = sorted(want - passed)
print(f"baseline: {len(want & passed)}/{len(want)} stable tests pass")
for m in missing:
    print("  NOT PASSING:", m)
sys.exit(1 if missing else 0)
