#!/bin/sh
# BOUNDED stand-in (never counted as proved) for the reflection-driven sentence of C18: exhaustive enumeration of Go
# values up to a stated depth against the laws of the property statement, run on the real internal.Normalize through
# `go test -overlay` (nothing is written into /repo). Prints the go test log path; exit 0 = all laws held.
cd "$(dirname "$0")/.." || exit 2
export GOFLAGS=-mod=mod GOPROXY=off GOSUMDB=off GOTOOLCHAIN=local
[ "${1:-quick}" = thorough ] && export VERIF_BOUNDED_DEPTH=4
out="$(pwd)/out/C18/bounded"; mkdir -p "$out"
printf '{"Replace": {"/repo/internal/zz_verif_bounded_test.go": "%s/bounded/normalize_bounded_test.go"}}\n' "$(pwd)" > "$out/ov.json"
(cd /repo/internal && go test -overlay "$out/ov.json" -vet=off -count=1 -timeout 600s -v -run '^TestVerifBoundedNormalize$' . ) > "$out/log.txt" 2>&1
code=$?
grep -h "BOUNDED-SUMMARY" "$out/log.txt" | sed 's/^ *[^ ]*: //'
exit $code
