#!/bin/bash
# usage: confirm_mutant.sh <id> <agent-out-dir> <base-commit>
# Confirms a seeded change in a fresh scratch worktree: applies, builds, keeps the 84 baseline tests,
# demo fails with the change and passes without. Stores it under /verif/seeded/<id>/ on success.
set -u
id=$1; src=$2; base=${3:-HEAD}
export GOFLAGS=-mod=mod GOPROXY=off GOSUMDB=off GOTOOLCHAIN=local
wt=/tmp/confirm_$id
git -C /repo worktree remove --force $wt 2>/dev/null
git -C /repo worktree add -q --detach $wt $base || exit 2
demo=$src/demo_test.go
# where to place the demo: from its package clause and the comment at the top
pkg=$(grep -m1 '^package ' $demo | awk '{print $2}')
dir=$(grep -m3 -oE '/tmp/mut/[A-Za-z0-9]+/[a-zA-Z0-9_/]*zz_[a-z_]*test.go' $demo | head -1 | sed -E 's|/tmp/mut/[A-Za-z0-9]+/||; s|/?zz_[a-z_]*test.go||')
case "$pkg" in internal|internal_test) dir=${dir:-internal};; document|document_test) dir=${dir:-document};; index|index_test) dir=${dir:-index};; query|query_test) dir=${dir:-query};; esac
dir=${dir:-.}
cp $demo $wt/$dir/zz_demo_test.go
tname=$(grep -oE '^func (Test[A-Za-z0-9_]+)' $demo | head -1 | awk '{print $2}')
res="id=$id dir=$dir test=$tname"
cd $wt
git apply $src/patch.diff || { echo "$res APPLY-FAILED"; exit 1; }
go build ./... || { echo "$res BUILD-FAILED"; exit 1; }
b=$(python3 /tmp/mut/tools/baseline.py $wt | head -1)
with=$(go test -vet=off -count=1 -run "^$tname\$" ./$dir 2>&1 | tail -1)
git apply -R $src/patch.diff
without=$(go test -vet=off -count=1 -run "^$tname\$" ./$dir 2>&1 | tail -1)
echo "$res | $b | with change: $with | without: $without"
ok=0
if echo "$b" | grep -q "84/84" && echo "$with" | grep -q "^FAIL" && echo "$without" | grep -q "^ok"; then ok=1; fi
cd /
git -C /repo worktree remove --force $wt
if [ $ok = 1 ]; then
  mkdir -p /verif/seeded/$id
  cp $src/patch.diff /verif/seeded/$id/patch.diff
  cp $demo /verif/seeded/$id/demo_test.go
  cp $src/notes.md /verif/seeded/$id/notes.md 2>/dev/null
  echo "CONFIRMED $id (demo dir: $dir, test: $tname)"
else
  echo "NOT-CONFIRMED $id"
fi
