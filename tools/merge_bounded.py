#!/usr/bin/env python3
# Adds the result of the bounded stand-in for internal.Normalize to the C18 evidence file written by govc.
import json, re, sys
ev_path, log_path, bcode, summary = sys.argv[1], sys.argv[2], int(sys.argv[3]), sys.argv[4]
ev = json.load(open(ev_path))
m = re.search(r"cases=(\d+) depth=(\d+) leaves=(\d+) wrappers=(\d+) failed=(\d+)", summary)
cases, depth, leaves, wrappers, failed = (int(x) for x in m.groups()) if m else (0, 0, 0, 0, -1)
viol = []
try:
    for line in open(log_path):
        if "BOUNDED-VIOLATION" in line:
            viol.append(line.strip().split("BOUNDED-VIOLATION ", 1)[1][:300])
except OSError:
    pass
ev["coverage"]["bounded_standins"] = [{
    "function": "internal.Normalize (with normalizeStruct, normalizeSlice, normalizeMap, isEmptyValue, processStructTag)",
    "label": "BOUNDED - not a proof, not counted in obligations/discharged",
    "why": "reflection-driven code is outside the subset govc translates (DESIGN.md A.7)",
    "bound": "every leaf of the menu (one zero and one non-zero value per kind and width, time, chan, func, map with int keys) under every sequence of at most %d wrappers out of pointer, nil pointer, slice, empty slice, array, string-keyed map, renamed struct field, omitempty struct field; plus three fixed structs with embedded, unexported and pointer fields" % depth,
    "laws": ["L1 canonical types only", "L2 idempotent", "L3 deterministic", "L4 leaves keep their value, pointers followed to value or nil",
             "L5 slices/arrays/maps elementwise", "L6 struct tags: rename, omitempty (non-nil pointer is not empty), embedded flattening, unexported skipped", "L7 chan/func/non-string-keyed maps rejected"],
    "cases_enumerated": cases, "leaves": leaves, "wrappers": wrappers, "depth": depth, "exhaustive_within_bound": True,
    "failed": failed, "exit": bcode, "violations": viol[:10],
    "how_run": "go test -overlay (test file /verif/bounded/normalize_bounded_test.go injected into package internal of /repo's working tree)",
}]
if bcode != 0:
    v = ev.get("violations")
    ev["violations"] = (v if isinstance(v, int) else 0) + 1
    ev["coverage"]["bounded_standins"][0]["replay"] = log_path
json.dump(ev, open(ev_path, "w"), indent=1)
